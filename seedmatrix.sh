#!/bin/bash
# seedmatrix.sh [seed-id...] : for every stored seed run each check named in its meta.json "caught_by"
# and report whether it still fails (exit 1 + VIOLATION) with the seed applied.  Needs a clean /repo.
cd /verif
ids=("$@"); [[ ${#ids[@]} -eq 0 ]] && ids=($(ls seeded | grep -v README))
for id in "${ids[@]}"; do
  [[ -f seeded/$id/meta.json ]] || continue
  checks=$(python3 -c "
import json,re,sys
m=json.load(open('seeded/$id/meta.json'))
s=[]
for c in m.get('caught_by',[]):
    for x in re.findall(r'\bC\d\d\b', c.split('(')[0]):
        if x not in s: s.append(x)
print(' '.join(s))")
  [[ -z $checks ]] && { echo "seed=$id NO-CHECKS"; continue; }
  ./seedrun.sh $id $checks 2>&1 | awk '{print $1, $2, $3}'
done
