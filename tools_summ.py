#!/usr/bin/env python3
# summarize replay files: key | grammar (one line) | shell
import json,glob,sys,collections
pat=sys.argv[1] if len(sys.argv)>1 else '*'
seen=collections.OrderedDict()
for f in sorted(glob.glob(f'/verif/replay/{pat}.json')):
    d=json.load(open(f))
    r=d['replay']
    g=(r.get('grammar') or r.get('text') or '').replace('\n',' ')
    k=(d['key'],g)
    seen.setdefault(k,[]).append(r.get('shell',''))
for (k,g),sh in seen.items():
    print(k,'|',g,'|',','.join(sh))
