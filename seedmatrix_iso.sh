#!/bin/bash
# seedmatrix_iso.sh [seed-id...] : like seedmatrix.sh, but in an isolated copy (worktree of /repo HEAD,
# copy of the harness, own build directories and VERIF_ROOT under /tmp/cgiso), so that /repo and
# /verif stay usable meanwhile.  Prints one line per (seed, check).  Removes the copy at the end.
set -u
ISO=/tmp/cgiso
rm -rf $ISO/root $ISO/harness; git -C /repo worktree remove --force $ISO/repo 2>/dev/null; mkdir -p $ISO/root/.build $ISO/root/evidence $ISO/root/replay
git -C /repo worktree add -q --detach $ISO/repo HEAD || exit 2
rsync -a --exclude target /verif/harness/ $ISO/harness/
sed -i "s#path = \"/repo\"#path = \"$ISO/repo\"#" $ISO/harness/Cargo.toml
cp /verif/known-findings.txt /verif/properties.jsonl $ISO/root/
ln -s $ISO/harness $ISO/root/harness
export CARGO_NET_OFFLINE=true VERIF_ROOT=$ISO/root CGMC_BIN_DIR=$ISO/t-repo/release
cd /verif
ids=("$@"); [[ ${#ids[@]} -eq 0 ]] && ids=($(ls seeded | grep -v README))
for id in "${ids[@]}"; do
  [[ -f seeded/$id/meta.json ]] || continue
  checks=$(python3 -c "
import json,re
m=json.load(open('seeded/$id/meta.json'))
s=[]
for c in m.get('caught_by',[]):
    for x in re.findall(r'\bC\d\d\b', c.split('(')[0]):
        if x not in s: s.append(x)
print(' '.join(s))")
  git -C $ISO/repo checkout -q -- . ; git -C $ISO/repo apply /verif/seeded/$id/patch.diff || { echo "seed=$id PATCH-DOES-NOT-APPLY"; continue; }
  ( cd $ISO/repo && CARGO_TARGET_DIR=$ISO/t-repo cargo build --release --offline -q --bin complgen ) >$ISO/build.log 2>&1 || { echo "seed=$id BUILD-FAILED(repo)"; continue; }
  ( cd $ISO/harness && CARGO_TARGET_DIR=$ISO/t-h cargo build --release --offline -q ) >$ISO/build.log 2>&1 || { echo "seed=$id BUILD-FAILED(harness)"; continue; }
  for c in $checks; do
    out=$($ISO/t-h/release/cgmc $c quick 2>&1); rc=$?
    echo "seed=$id check=$c exit=$rc $(echo "$out" | grep -m1 -A1 '^VIOLATION' | tail -1 | cut -c1-110)"
    find $ISO/root/replay -name '*.json' -delete
  done
done
cd /; git -C /repo worktree remove --force $ISO/repo; rm -rf $ISO
