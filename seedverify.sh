#!/bin/bash
# seedverify.sh <worktree> <n>   : confirm patch<n> of an agent's worktree: suite passes with it, demo fails with / passes without
set -u
WT=$1; N=$2
cd "$WT" || exit 2
git checkout -q -- . 
export CARGO_TARGET_DIR=$WT/target CARGO_NET_OFFLINE=true
echo "== demo without patch"; bash out/demo$N.sh "$WT" >/tmp/sv-demo0.log 2>&1; echo "exit=$?"
git apply out/patch$N.diff || { echo "patch does not apply"; exit 2; }
echo "== test suite with patch"; cargo test --workspace --no-fail-fast --offline 2>&1 | grep -E "^test result" | head -1
echo "== demo with patch"; bash out/demo$N.sh "$WT" >/tmp/sv-demo1.log 2>&1; echo "exit=$?"
git checkout -q -- .
