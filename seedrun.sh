#!/bin/bash
# seedrun.sh <seed-id> <check-id>... : apply a seeded change to /repo, run the checks (quick), undo it
set -u
ID=$1; shift
cd /verif
git -C /repo diff --quiet || { echo "/repo is dirty"; exit 2; }
git -C /repo apply /verif/seeded/$ID/patch.diff || exit 2
for c in "$@"; do
  out=$(./check $c ${TIER:-quick} 2>&1); rc=$?
  nv=$(echo "$out" | grep -c '^VIOLATION')
  echo "seed=$ID check=$c exit=$rc violations_printed=$nv :: $(echo "$out" | grep -m1 -A1 '^VIOLATION' | tail -1 | cut -c1-220)"
done
git -C /repo checkout -- .
rm -f /verif/replay/*
