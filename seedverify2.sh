#!/bin/bash
# seedverify2.sh <seed-id>... : in a scratch worktree of /repo HEAD, for each stored seed: suite passes with the patch,
# demo passes without and fails with the patch.  Prints one line per seed.
set -u
WT=/tmp/wt-seedverify
git -C /repo worktree remove --force $WT 2>/dev/null
git -C /repo worktree add -q --detach $WT HEAD || exit 2
export CARGO_TARGET_DIR=$WT/target CARGO_NET_OFFLINE=true
cd $WT
for id in "$@"; do
  d=/verif/seeded/$id
  git checkout -q -- .
  unset COMPLGEN_BIN
  bash $d/demo.sh $WT >/tmp/sv-$id-0.log 2>&1; e0=$?
  git apply $d/patch.diff || { echo "$id: patch does not apply"; continue; }
  t=$(cargo test --workspace --no-fail-fast --offline 2>&1 | grep -E "^test result" | tr '\n' ' ')
  bash $d/demo.sh $WT >/tmp/sv-$id-1.log 2>&1; e1=$?
  echo "$id: demo_without=$e0 demo_with=$e1 suite: $t"
done
cd /; git -C /repo worktree remove --force $WT
