//! Neutral views: complgen's compiled DFA and the reference automaton are both turned into
//! generic NFAs over one interned label alphabet, so that `auto::equivalent` can compare them.

use crate::auto::{determinize_l, Interner, LNfa, Nfa, Sym};
use crate::refsem::{Allowed, RLabel, RefAuto};
use complgen::dfa::{Inp, DFA};
use std::collections::{BTreeSet, HashMap};

pub const SEP: char = '\u{1f}';

pub struct Keys {
    /// strict: descriptions are part of the symbol; lenient: descriptions are erased (used when
    /// the reference has DON'T-CARE descriptions)
    pub strict: bool,
    /// ignore fallback levels (C09 `||` -> `|` comparisons)
    pub erase_levels: bool,
    /// treat every state as accepting (C04: scripts carry no accepting states)
    pub all_accepting: bool,
    pub names: Interner,
}

fn opt(d: &Option<String>) -> String {
    match d {
        Some(d) => format!("={d}"),
        None => "-".to_string(),
    }
}

impl Keys {
    pub fn new(strict: bool) -> Self {
        Keys { strict, erase_levels: false, all_accepting: false, names: Interner::default() }
    }

    fn lvl(&self, l: usize) -> usize {
        if self.erase_levels { 0 } else { l }
    }

    pub fn ref_key(&mut self, l: &RLabel) -> Sym {
        let s = match l {
            RLabel::Lit { text, descr, level } => {
                let d = if self.strict {
                    match descr {
                        Allowed::Exactly(x) => opt(x),
                        Allowed::AnyOf(_) => "?".to_string(),
                    }
                } else {
                    "*".to_string()
                };
                format!("L{SEP}{text}{SEP}{d}{SEP}{}", self.lvl(*level))
            }
            RLabel::Cmd { text, level, compadd } => {
                format!("{}{SEP}{text}{SEP}{}", if *compadd { "A" } else { "C" }, self.lvl(*level))
            }
            RLabel::Star => "*".to_string(),
            RLabel::Sub { auto, level } => {
                let n = self.ref_lnfa(auto);
                let canon = determinize_l(&n, &mut self.names).canonical(&self.names);
                format!("S{SEP}{canon}{SEP}{}", self.lvl(*level))
            }
        };
        self.names.get(&s)
    }

    pub fn impl_key(&mut self, inp: &Inp, owner: &DFA) -> Sym {
        let s = match inp {
            Inp::Literal { literal, description, fallback_level } => {
                let d = if self.strict { opt(&description.map(|d| d.to_string())) } else { "*".to_string() };
                format!("L{SEP}{literal}{SEP}{d}{SEP}{}", self.lvl(*fallback_level))
            }
            Inp::Command { cmd, fallback_level } => format!("C{SEP}{}{SEP}{}", cmd.trim(), self.lvl(*fallback_level)),
            Inp::Compadd { cmd, fallback_level } => format!("A{SEP}{}{SEP}{}", cmd.trim(), self.lvl(*fallback_level)),
            Inp::Star => "*".to_string(),
            Inp::Subword { subdfa, fallback_level } => {
                let sub = owner.subdfas.verif_lookup(*subdfa);
                let n = self.impl_lnfa(sub, owner);
                let canon = determinize_l(&n, &mut self.names).canonical(&self.names);
                format!("S{SEP}{canon}{SEP}{}", self.lvl(*fallback_level))
            }
        };
        self.names.get(&s)
    }

    /// epsilon-free NFA of a reference automaton
    pub fn ref_nfa(&mut self, a: &RefAuto) -> Nfa {
        let mut keys: Vec<Sym> = Vec::with_capacity(a.labels.len());
        for l in &a.labels {
            keys.push(self.ref_key(l));
        }
        // keep only "core" states (those with labelled out-edges, and the accepting state) in the
        // sets: epsilon-only Thompson states carry no information once closures are taken
        let core = |s: usize| !a.edges[s].is_empty() || s == a.accept;
        let starts: BTreeSet<usize> = a.start_set().into_iter().filter(|s| core(*s)).collect();
        let mut n = Nfa { starts, accept: vec![false; a.n], trans: vec![vec![]; a.n] };
        n.accept[a.accept] = true;
        // closure cache per target
        let mut cl: HashMap<usize, Vec<usize>> = HashMap::new();
        for s in 0..a.n {
            for (l, t) in &a.edges[s] {
                let c = cl
                    .entry(*t)
                    .or_insert_with(|| a.closure(&BTreeSet::from([*t])).into_iter().filter(|s| core(*s)).collect());
                for u in c.iter() {
                    n.trans[s].push((keys[*l], *u));
                }
            }
        }
        n
    }

    /// NFA view of a complgen DFA (`dfa`); `owner` is the top-level DFA holding the sub-DFA pool
    pub fn impl_nfa(&mut self, dfa: &DFA, owner: &DFA) -> Nfa {
        let (n, _) = self.impl_nfa_with_ids(dfa, owner);
        n
    }

    pub fn impl_nfa_with_ids(&mut self, dfa: &DFA, owner: &DFA) -> (Nfa, Vec<u32>) {
        // collect state ids
        let mut ids: Vec<u32> = vec![dfa.starting_state];
        let mut index: HashMap<u32, usize> = HashMap::from([(dfa.starting_state, 0)]);
        let mut add = |s: u32, ids: &mut Vec<u32>| {
            if !index.contains_key(&s) {
                index.insert(s, ids.len());
                ids.push(s);
            }
        };
        for (from, tos) in &dfa.transitions {
            add(*from, &mut ids);
            for (_, to) in tos {
                add(*to, &mut ids);
            }
        }
        for s in dfa.accepting_states.iter() {
            add(s, &mut ids);
        }
        let mut n = Nfa { starts: BTreeSet::from([0]), accept: vec![false; ids.len()], trans: vec![vec![]; ids.len()] };
        for s in dfa.accepting_states.iter() {
            n.accept[index[&s]] = true;
        }
        let mut key_cache: HashMap<complgen::dfa::InpId, Sym> = HashMap::new();
        for (from, tos) in &dfa.transitions {
            for (inp_id, to) in tos {
                let k = match key_cache.get(inp_id) {
                    Some(k) => *k,
                    None => {
                        let k = self.impl_key(dfa.verif_input(*inp_id), owner);
                        key_cache.insert(*inp_id, k);
                        k
                    }
                };
                n.trans[index[from]].push((k, index[to]));
            }
        }
        (n, ids)
    }


    // ---- readings: what *word* an item consumes (levels, descriptions erased) ----------------

    fn with_erased<T>(&mut self, f: impl FnOnce(&mut Keys) -> T) -> T {
        let (s, e) = (self.strict, self.erase_levels);
        self.strict = false;
        self.erase_levels = true;
        let r = f(self);
        self.strict = s;
        self.erase_levels = e;
        r
    }

    pub fn ref_read_key(&mut self, l: &RLabel) -> Sym {
        self.with_erased(|k| {
            let s = k.ref_key(l);
            let name = format!("R{SEP}{}", k.names.name(s));
            k.names.get(&name)
        })
    }

    pub fn impl_read_key(&mut self, inp: &Inp, owner: &DFA) -> Sym {
        self.with_erased(|k| {
            let s = k.impl_key(inp, owner);
            let name = format!("R{SEP}{}", k.names.name(s));
            k.names.get(&name)
        })
    }

    pub fn ref_lnfa(&mut self, a: &RefAuto) -> LNfa {
        let mut lkeys: Vec<Sym> = Vec::with_capacity(a.labels.len());
        let mut rkeys: Vec<Sym> = Vec::with_capacity(a.labels.len());
        for l in &a.labels {
            lkeys.push(self.ref_key(l));
            rkeys.push(self.ref_read_key(l));
        }
        let core = |s: usize| !a.edges[s].is_empty() || s == a.accept;
        let starts: BTreeSet<usize> = a.start_set().into_iter().filter(|s| core(*s)).collect();
        let mut n = LNfa { starts, accept: vec![self.all_accepting; a.n], trans: vec![vec![]; a.n] };
        n.accept[a.accept] = true;
        let mut cl: HashMap<usize, Vec<usize>> = HashMap::new();
        for s in 0..a.n {
            for (l, t) in &a.edges[s] {
                let c = cl
                    .entry(*t)
                    .or_insert_with(|| a.closure(&BTreeSet::from([*t])).into_iter().filter(|s| core(*s)).collect());
                for u in c.iter() {
                    n.trans[s].push((rkeys[*l], lkeys[*l], *u));
                }
            }
        }
        n
    }

    pub fn impl_lnfa(&mut self, dfa: &DFA, owner: &DFA) -> LNfa {
        let (plain, ids) = self.impl_nfa_with_ids(dfa, owner);
        let index: HashMap<u32, usize> = ids.iter().enumerate().map(|(i, s)| (*s, i)).collect();
        let accept = if self.all_accepting { vec![true; ids.len()] } else { plain.accept.clone() };
        let mut n = LNfa { starts: plain.starts.clone(), accept, trans: vec![vec![]; ids.len()] };
        for (from, tos) in &dfa.transitions {
            for (inp_id, to) in tos {
                let inp = dfa.verif_input(*inp_id);
                let l = self.impl_key(inp, owner);
                let r = self.impl_read_key(inp, owner);
                n.trans[index[from]].push((r, l, index[to]));
            }
        }
        n
    }

    pub fn render_path(&self, p: &[Sym]) -> String {
        p.iter().map(|s| self.names.name(*s).replace(SEP, "\u{00b7}")).collect::<Vec<_>>().join("  ")
    }
}
