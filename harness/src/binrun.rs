//! Runs the real `complgen` binary (built from /repo's working tree with the verif feature
//! OFF) as a subprocess with a timeout; stdout/stderr go to files so that nothing can block.

use std::path::{Path, PathBuf};
use std::process::{Command, Stdio};
use std::sync::atomic::{AtomicU64, Ordering};
use std::time::{Duration, Instant};

pub fn bin_path() -> PathBuf {
    let dir = std::env::var("CGMC_BIN_DIR").unwrap_or_else(|_| format!("{}/.build/repo/release", crate::report::root()));
    Path::new(&dir).join("complgen")
}

static COUNTER: AtomicU64 = AtomicU64::new(0);

/// private scratch directory under /verif/.build (never /tmp), removed on drop
pub struct Scratch {
    pub dir: PathBuf,
}

impl Scratch {
    pub fn new(tag: &str) -> Self {
        let n = COUNTER.fetch_add(1, Ordering::SeqCst);
        let dir = Path::new(&crate::report::root()).join(".build").join("scratch").join(format!("{}-{}-{}", tag, std::process::id(), n));
        let _ = std::fs::remove_dir_all(&dir);
        std::fs::create_dir_all(&dir).expect("cannot create scratch dir");
        Scratch { dir }
    }
    pub fn path(&self, name: &str) -> PathBuf {
        self.dir.join(name)
    }
}

impl Drop for Scratch {
    fn drop(&mut self) {
        let _ = std::fs::remove_dir_all(&self.dir);
    }
}

#[derive(Debug, Clone, Default)]
pub struct BinResult {
    pub status: Option<i32>,
    pub signal: Option<i32>,
    pub timed_out: bool,
    pub stdout: Vec<u8>,
    pub stderr: Vec<u8>,
    pub wall_ms: u128,
}

impl BinResult {
    pub fn describe(&self) -> String {
        if self.timed_out {
            return "timed out".into();
        }
        match (self.status, self.signal) {
            (Some(c), _) => format!("exit {c}"),
            (None, Some(s)) => format!("killed by signal {s}"),
            _ => "unknown".into(),
        }
    }
}

pub struct Invocation<'a> {
    pub args: Vec<String>,
    pub stdin: Option<&'a [u8]>,
    pub cwd: Option<&'a Path>,
    pub env: Vec<(String, String)>,
    pub clear_env: bool,
    pub timeout: Duration,
    pub program: Option<PathBuf>,
    pub pre_args: Vec<String>,
}

impl<'a> Invocation<'a> {
    pub fn new(args: Vec<String>) -> Self {
        Invocation { args, stdin: None, cwd: None, env: vec![], clear_env: false, timeout: Duration::from_secs(60), program: None, pre_args: vec![] }
    }
}

pub fn run(inv: &Invocation, scratch: &Scratch) -> BinResult {
    use std::os::unix::process::ExitStatusExt;
    let n = COUNTER.fetch_add(1, Ordering::SeqCst);
    let out_p = scratch.path(&format!("out-{n}"));
    let err_p = scratch.path(&format!("err-{n}"));
    let in_p = scratch.path(&format!("in-{n}"));
    let out_f = std::fs::File::create(&out_p).unwrap();
    let err_f = std::fs::File::create(&err_p).unwrap();
    let program = inv.program.clone().unwrap_or_else(bin_path);
    let mut cmd = Command::new(&program);
    cmd.args(&inv.pre_args);
    cmd.args(&inv.args);
    if inv.clear_env {
        cmd.env_clear();
    }
    for (k, v) in &inv.env {
        cmd.env(k, v);
    }
    if let Some(c) = inv.cwd {
        cmd.current_dir(c);
    }
    match inv.stdin {
        Some(b) => {
            std::fs::write(&in_p, b).unwrap();
            cmd.stdin(std::fs::File::open(&in_p).unwrap());
        }
        None => {
            cmd.stdin(Stdio::null());
        }
    }
    cmd.stdout(out_f).stderr(err_f);
    let start = Instant::now();
    let mut child = match cmd.spawn() {
        Ok(c) => c,
        Err(e) => {
            eprintln!("machinery: cannot spawn {}: {e}", program.display());
            std::process::exit(2);
        }
    };
    let mut res = BinResult::default();
    let mut sleep_us = 200u64;
    loop {
        match child.try_wait() {
            Ok(Some(st)) => {
                res.status = st.code();
                res.signal = st.signal();
                break;
            }
            Ok(None) => {
                if start.elapsed() > inv.timeout {
                    let _ = child.kill();
                    let _ = child.wait();
                    res.timed_out = true;
                    break;
                }
                std::thread::sleep(Duration::from_micros(sleep_us));
                if sleep_us < 5000 {
                    sleep_us *= 2;
                }
            }
            Err(_) => break,
        }
    }
    res.wall_ms = start.elapsed().as_millis();
    res.stdout = std::fs::read(&out_p).unwrap_or_default();
    res.stderr = std::fs::read(&err_p).unwrap_or_default();
    let _ = std::fs::remove_file(&out_p);
    let _ = std::fs::remove_file(&err_p);
    let _ = std::fs::remove_file(&in_p);
    res
}

/// `complgen --<shell> <dest> <input>` with the grammar on stdin (`-`) and the script on stdout
pub fn compile_stdio(text: &[u8], shell: &str, scratch: &Scratch) -> BinResult {
    let mut inv = Invocation::new(vec![format!("--{shell}"), "-".into(), "-".into()]);
    inv.stdin = Some(text);
    run(&inv, scratch)
}

/// version string baked into the binary (`git describe` at its build time)
pub fn binary_version(scratch: &Scratch) -> String {
    let inv = Invocation::new(vec!["--version".into()]);
    let r = run(&inv, scratch);
    String::from_utf8_lossy(&r.stdout).trim().to_string()
}

/// version string baked into the library the harness links
pub fn library_version() -> String {
    let s = complgen::signature("");
    s.rsplit(' ').next().unwrap_or("").trim().to_string()
}

pub fn normalise_version(bytes: &[u8], version: &str) -> Vec<u8> {
    if version.is_empty() {
        return bytes.to_vec();
    }
    let s = String::from_utf8_lossy(bytes).to_string();
    s.replace(version, "VERSION").into_bytes()
}
