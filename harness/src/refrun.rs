//! Run-time reference (R6 reading a typed word, R7 candidates) on the reference automaton.

use crate::refsem::{RLabel, RefAuto};
use std::collections::{BTreeMap, BTreeSet};

pub type StateSet = BTreeSet<usize>;

/// fixed outputs of the probe commands: command text -> candidate texts (text before TAB)
#[derive(Clone, Debug, Default)]
pub struct Probes {
    pub outputs: BTreeMap<String, Vec<String>>,
}

impl Probes {
    pub fn candidates(&self, cmd: &str) -> Vec<String> {
        self.outputs.get(cmd.trim()).cloned().unwrap_or_default()
    }
}

/// Deviation rules: switches that make the model reproduce one listed known finding each.
#[derive(Clone, Debug, Default, PartialEq, Eq)]
pub struct Rules {
    /// F6: a word consumed item by item is accepted even if the within-word automaton is not in
    /// an accepting state
    pub within_word_prefix_accepted: bool,
    /// F7: when the last complete word fails to match an expected command, completion goes on
    /// from the state before that word
    pub last_word_command_mismatch_completes: bool,
}

#[derive(Clone, Debug, PartialEq, Eq)]
pub enum Read {
    /// the word is read, new state set
    To(StateSet),
    /// no expected item reads the word
    Dead,
    /// readable by two different kinds of items with different continuations: no verdict
    Ambiguous,
}

/// every point a within-word automaton can be at after consuming complete items of `w`
/// (all tokenisations followed): (closed state set, bytes consumed)
fn sub_walk(a: &RefAuto, w: &str, probes: &Probes) -> Vec<(StateSet, usize)> {
    let mut out = vec![];
    let mut stack: Vec<(StateSet, usize)> = vec![(a.start_set(), 0)];
    let mut seen: BTreeSet<(StateSet, usize)> = BTreeSet::new();
    while let Some((set, i)) = stack.pop() {
        if !seen.insert((set.clone(), i)) {
            continue;
        }
        let rest = &w[i..];
        let mut by_len: BTreeMap<usize, StateSet> = BTreeMap::new();
        for (l, t) in a.out_edges(&set) {
            match &a.labels[l] {
                RLabel::Lit { text, .. } => {
                    if !text.is_empty() && rest.starts_with(text.as_str()) {
                        by_len.entry(text.len()).or_default().insert(t);
                    }
                }
                RLabel::Cmd { text, .. } => {
                    for c in probes.candidates(text) {
                        if !c.is_empty() && rest.starts_with(c.as_str()) {
                            by_len.entry(c.len()).or_default().insert(t);
                        }
                    }
                }
                _ => {}
            }
        }
        for (len, tg) in by_len {
            stack.push((a.closure(&tg), i + len));
        }
        out.push((set, i));
    }
    out
}

#[derive(Clone, Copy, Debug, PartialEq, Eq)]
pub enum Tri {
    No,
    Yes,
    Unclear,
}

/// is the complete word `w` in the language of the within-word automaton?
pub fn sub_accepts(a: &RefAuto, w: &str, probes: &Probes, rules: &Rules) -> Tri {
    let mut unclear = false;
    for (set, i) in sub_walk(a, w, probes) {
        let rest = &w[i..];
        if rest.is_empty() && a.accepting(&set) {
            return Tri::Yes;
        }
        // a placeholder takes the whole rest of the word
        let mut star_targets = StateSet::new();
        for (l, t) in a.out_edges(&set) {
            if matches!(a.labels[l], RLabel::Star) {
                star_targets.insert(t);
            }
        }
        if !star_targets.is_empty() && a.accepting(&a.closure(&star_targets)) {
            if rest.is_empty() {
                unclear = true; // does a placeholder match the empty rest? left open
            } else {
                return Tri::Yes;
            }
        }
        if rules.within_word_prefix_accepted && rest.is_empty() && i > 0 {
            return Tri::Yes;
        }
    }
    if unclear { Tri::Unclear } else { Tri::No }
}

/// R6: read one complete word at a (closed) state set of the main automaton
pub fn read_word(a: &RefAuto, set: &StateSet, w: &str, probes: &Probes, rules: &Rules) -> Read {
    let edges = a.out_edges(set);
    let mut lit: StateSet = StateSet::new();
    let mut sub: StateSet = StateSet::new();
    let mut cmd: StateSet = StateSet::new();
    let mut star: StateSet = StateSet::new();
    let mut unclear = false;
    for (l, t) in &edges {
        match &a.labels[*l] {
            RLabel::Lit { text, .. } => {
                if text == w {
                    lit.insert(*t);
                }
            }
            RLabel::Sub { auto, .. } => match sub_accepts(auto, w, probes, rules) {
                Tri::Yes => {
                    sub.insert(*t);
                }
                Tri::Unclear => unclear = true,
                Tri::No => {}
            },
            RLabel::Cmd { text, .. } => {
                if probes.candidates(text).iter().any(|c| c == w) {
                    cmd.insert(*t);
                }
            }
            RLabel::Star => {
                star.insert(*t);
            }
        }
    }
    if !lit.is_empty() {
        return Read::To(a.closure(&lit));
    }
    if unclear {
        return Read::Ambiguous;
    }
    let kinds: Vec<&StateSet> = [&sub, &cmd, &star].into_iter().filter(|s| !s.is_empty()).collect();
    match kinds.len() {
        0 => Read::Dead,
        1 => Read::To(a.closure(kinds[0])),
        _ => {
            // documented priority is only stated for literals; if the kinds agree on the
            // continuation there is nothing to decide
            let first = a.closure(kinds[0]);
            if kinds.iter().all(|k| a.closure(k) == first) {
                Read::To(first)
            } else {
                Read::Ambiguous
            }
        }
    }
}

#[derive(Clone, Debug, Default)]
pub struct Expected {
    /// candidates that must be offered (before COMP_WORDBREAKS stripping)
    pub must: BTreeSet<String>,
    /// candidates that may additionally be offered (documented tolerance)
    pub may: BTreeSet<String>,
}

fn sub_candidates(a: &RefAuto, p: &str, probes: &Probes) -> Expected {
    let mut e = Expected::default();
    // candidates from points where part of an item is typed, and from the point(s) where the
    // whole prefix is consumed
    let mut partial: BTreeSet<String> = BTreeSet::new();
    let mut consumed: BTreeSet<String> = BTreeSet::new();
    for (set, i) in sub_walk(a, p, probes) {
        let m = &p[..i];
        let r = &p[i..];
        // by within-word level: first level with any match
        let mut levels: BTreeMap<usize, BTreeSet<String>> = BTreeMap::new();
        for (l, _) in a.out_edges(&set) {
            match &a.labels[l] {
                RLabel::Lit { text, level, .. } => {
                    if text.starts_with(r) {
                        levels.entry(*level).or_default().insert(format!("{m}{text}"));
                    }
                }
                RLabel::Cmd { text, level, .. } => {
                    for c in probes.candidates(text) {
                        if c.starts_with(r) {
                            levels.entry(*level).or_default().insert(format!("{m}{c}"));
                        }
                    }
                }
                _ => {}
            }
        }
        if let Some((_, c)) = levels.into_iter().next() {
            let has_proper = c.iter().any(|x| x != p);
            for x in c {
                // the typed text itself (an item typed completely): when longer values extending
                // it are offered at this point it is one of "the allowed values that extend it"
                // and must be offered too (else the shell would force the longer one); when it is
                // the only one, it may be offered or not
                if x == p {
                    if has_proper && !r.is_empty() {
                        partial.insert(x);
                    } else {
                        e.may.insert(x);
                    }
                } else if r.is_empty() {
                    consumed.insert(x);
                } else {
                    partial.insert(x);
                }
            }
        }
        if r.is_empty() && i > 0 && a.accepting(&set) {
            e.may.insert(p.to_string());
        }
    }
    if partial.is_empty() {
        e.must.extend(consumed);
    } else {
        // the typed text ends an item AND is the beginning of a longer one (overlapping values):
        // the values extending it are prescribed, what could follow the shorter value is optional
        e.must.extend(partial);
        e.may.extend(consumed);
    }
    e
}

/// R7: candidates at a state set for the typed prefix `p` (before word-break stripping)
pub fn candidates(a: &RefAuto, set: &StateSet, p: &str, probes: &Probes) -> Expected {
    let edges = a.out_edges(set);
    let mut by_level: BTreeMap<usize, Expected> = BTreeMap::new();
    for (l, _) in &edges {
        match &a.labels[*l] {
            RLabel::Lit { text, level, .. } => {
                if text.starts_with(p) {
                    by_level.entry(*level).or_default().must.insert(text.clone());
                } else {
                    by_level.entry(*level).or_default();
                }
            }
            RLabel::Sub { auto, level } => {
                let e = sub_candidates(auto, p, probes);
                let slot = by_level.entry(*level).or_default();
                slot.must.extend(e.must);
                slot.may.extend(e.may);
            }
            RLabel::Cmd { text, level, .. } => {
                let slot = by_level.entry(*level).or_default();
                for c in probes.candidates(text) {
                    if c.starts_with(p) {
                        slot.must.insert(c);
                    }
                }
            }
            RLabel::Star => {}
        }
    }
    // first level with a non-empty result wins; a level whose only possible result is a
    // tolerated candidate may or may not stop the search
    let mut out = Expected::default();
    let mut weakened = false;
    for (_, e) in by_level {
        if !e.must.is_empty() {
            if weakened {
                out.may.extend(e.must);
            } else {
                out.must = e.must;
            }
            out.may.extend(e.may);
            return out;
        }
        if !e.may.is_empty() {
            // only the tolerated candidate at this level: either it is offered (and wins) or the
            // next level is tried; from here on nothing is demanded, everything is allowed
            out.may.extend(e.may);
            weakened = true;
        }
    }
    out
}

/// bash's own stripping: remove from a candidate the part of the typed prefix up to and
/// including its last COMP_WORDBREAKS character
pub fn strip_wordbreaks(cand: &str, prefix: &str, wordbreaks: &str) -> String {
    let cut = prefix.char_indices().filter(|(_, c)| wordbreaks.contains(*c)).map(|(i, c)| i + c.len_utf8()).last().unwrap_or(0);
    if cut > 0 && cand.starts_with(&prefix[..cut]) {
        cand[cut..].to_string()
    } else {
        cand.to_string()
    }
}

pub const DEFAULT_WORDBREAKS: &str = " \t\n\"'@><=;|&(:";


/// The external commands the completion phase runs at a state for the typed prefix `p`, in the
/// documented shape (command text, $1, $2): at top level $1 = p, $2 = ""; inside a word $1 = the
/// part of p not yet consumed, $2 = the consumed part.  Levels up to and including the first one
/// that yields a candidate.  Returns (required, allowed); None = the tolerance of R7 makes the
/// winning level undetermined.
pub fn completion_probe_calls(a: &RefAuto, set: &StateSet, p: &str, probes: &Probes) -> Option<(BTreeSet<(String, String, String)>, BTreeSet<(String, String, String)>)> {
    let edges = a.out_edges(set);
    let mut levels: BTreeSet<usize> = BTreeSet::new();
    for (l, _) in &edges {
        if let Some(lv) = a.labels[*l].level() {
            levels.insert(lv);
        }
    }
    let mut required: BTreeSet<(String, String, String)> = BTreeSet::new();
    let mut allowed: BTreeSet<(String, String, String)> = BTreeSet::new();
    for lv in levels {
        let mut matched = false;
        let mut tolerated_only = false;
        for (l, _) in &edges {
            match &a.labels[*l] {
                RLabel::Lit { text, level, .. } if *level == lv => {
                    if text.starts_with(p) {
                        matched = true;
                    }
                }
                RLabel::Cmd { text, level, .. } if *level == lv => {
                    required.insert((text.clone(), p.to_string(), String::new()));
                    if probes.candidates(text).iter().any(|c| c.starts_with(p)) {
                        matched = true;
                    }
                }
                RLabel::Sub { auto, level } if *level == lv => {
                    let pts = sub_walk(auto, p, probes);
                    // every command expected at a point of the walk may run there
                    let mut proper: Vec<usize> = vec![];
                    for (k, (sset, i)) in pts.iter().enumerate() {
                        let (m, r) = (&p[..*i], &p[*i..]);
                        let mut has_proper = false;
                        for (sl, _) in auto.out_edges(sset) {
                            match &auto.labels[sl] {
                                RLabel::Cmd { text, .. } => {
                                    allowed.insert((text.clone(), r.to_string(), m.to_string()));
                                    if probes.candidates(text).iter().any(|c| c.starts_with(r) && c != r) {
                                        has_proper = true;
                                    }
                                }
                                RLabel::Lit { text, .. } => {
                                    if text.starts_with(r) && text != r {
                                        has_proper = true;
                                    }
                                }
                                _ => {}
                            }
                        }
                        if has_proper && !r.is_empty() {
                            proper.push(k);
                        }
                    }
                    // the point where the emitted matcher stops: the unique point where the rest
                    // is the beginning of a longer item, else the farthest point
                    let frontier: Option<&(StateSet, usize)> = match proper.len() {
                        0 => {
                            let maxi = pts.iter().map(|(_, i)| *i).max().unwrap_or(0);
                            let far: Vec<&(StateSet, usize)> = pts.iter().filter(|(_, i)| *i == maxi).collect();
                            if far.len() == 1 { Some(far[0]) } else { None }
                        }
                        1 => Some(&pts[proper[0]]),
                        _ => None,
                    };
                    if let Some((sset, i)) = frontier {
                        let (m, r) = (&p[..*i], &p[*i..]);
                        let sub_edges = auto.out_edges(sset);
                        let mut sub_levels: BTreeSet<usize> = BTreeSet::new();
                        for (sl, _) in &sub_edges {
                            if let Some(x) = auto.labels[*sl].level() {
                                sub_levels.insert(x);
                            }
                        }
                        for slv in sub_levels {
                            let mut sub_matched = false;
                            for (sl, _) in &sub_edges {
                                match &auto.labels[*sl] {
                                    RLabel::Lit { text, level, .. } if *level == slv => {
                                        if text.starts_with(r) {
                                            sub_matched = true;
                                        }
                                    }
                                    RLabel::Cmd { text, level, .. } if *level == slv => {
                                        required.insert((text.clone(), r.to_string(), m.to_string()));
                                        if probes.candidates(text).iter().any(|c| c.starts_with(r)) {
                                            sub_matched = true;
                                        }
                                    }
                                    _ => {}
                                }
                            }
                            if sub_matched {
                                break;
                            }
                        }
                    }
                    let e = sub_candidates(auto, p, probes);
                    if !e.must.is_empty() {
                        matched = true;
                    } else if !e.may.is_empty() {
                        tolerated_only = true;
                    }
                }
                _ => {}
            }
        }
        if matched {
            return Some((required, allowed));
        }
        if tolerated_only {
            return None;
        }
    }
    Some((required, allowed))
}

/// all (command, $1, $2) invocations that matching an earlier complete word `w` at `set` may
/// legitimately perform
pub fn matching_probe_calls_allowed(a: &RefAuto, set: &StateSet, w: &str, probes: &Probes, call: &(String, String, String)) -> bool {
    for (l, _) in a.out_edges(set) {
        match &a.labels[l] {
            RLabel::Cmd { text, .. } => {
                if *text == call.0 && call.1.is_empty() && call.2.is_empty() {
                    return true;
                }
            }
            RLabel::Sub { auto, .. } => {
                // inside a word: $2 = consumed prefix, $1 = rest, the command expected there
                if format!("{}{}", call.2, call.1) == w {
                    for (sset, i) in sub_walk(auto, w, probes) {
                        if i == call.2.len() {
                            for (sl, _) in auto.out_edges(&sset) {
                                if let RLabel::Cmd { text, .. } = &auto.labels[sl] {
                                    if *text == call.0 {
                                        return true;
                                    }
                                }
                            }
                        }
                    }
                }
            }
            _ => {}
        }
    }
    false
}
