//! Evidence / violation / known-finding bookkeeping shared by all checks.

use crate::json::J;
use std::collections::BTreeMap;
use std::time::Instant;

#[derive(Clone, Copy, PartialEq, Eq, Debug)]
pub enum Tier {
    Quick,
    Thorough,
}

impl Tier {
    pub fn name(&self) -> &'static str {
        match self {
            Tier::Quick => "quick",
            Tier::Thorough => "thorough",
        }
    }
    pub fn pick<T>(&self, q: T, t: T) -> T {
        match self {
            Tier::Quick => q,
            Tier::Thorough => t,
        }
    }
}

pub fn root() -> String {
    std::env::var("VERIF_ROOT").unwrap_or_else(|_| "/verif".to_string())
}

pub fn seed() -> u64 {
    std::env::var("VERIF_SEED").ok().and_then(|s| s.parse().ok()).unwrap_or(0)
}

#[derive(Clone, Debug)]
pub struct Violation {
    /// classification key: decides whether a known-findings entry covers it
    pub key: String,
    pub summary: String,
    pub replay: J,
}

#[derive(Clone, Debug)]
pub struct KnownFinding {
    pub property: String,
    pub key: String,
    pub text: String,
}

pub fn load_known_findings() -> Vec<KnownFinding> {
    let path = format!("{}/known-findings.txt", root());
    let mut out = vec![];
    let Ok(s) = std::fs::read_to_string(&path) else { return out };
    for line in s.lines() {
        let line = line.trim();
        let Some(rest) = line.strip_prefix("finding:") else { continue };
        let rest = rest.trim();
        let mut property = String::new();
        let mut key = String::new();
        let mut words = vec![];
        for w in rest.split_whitespace() {
            if let Some(p) = w.strip_prefix("property=") {
                if property.is_empty() {
                    property = p.to_string();
                    continue;
                }
            }
            if let Some(k) = w.strip_prefix("key=") {
                if key.is_empty() {
                    key = k.to_string();
                    continue;
                }
            }
            words.push(w);
        }
        out.push(KnownFinding { property, key, text: words.join(" ") });
    }
    out
}

pub struct Report {
    pub id: String,
    pub tier: Tier,
    pub level: &'static str,
    pub coverage: Vec<(String, J)>,
    pub assumptions: Vec<String>,
    pub violations: Vec<Violation>,
    start: Instant,
}

impl Report {
    pub fn new(id: &str, tier: Tier, level: &'static str) -> Self {
        Report {
            id: id.to_string(),
            tier,
            level,
            coverage: vec![],
            assumptions: vec![],
            violations: vec![],
            start: Instant::now(),
        }
    }
    pub fn cov(&mut self, k: &str, v: J) {
        if let Some(e) = self.coverage.iter_mut().find(|(kk, _)| kk == k) {
            e.1 = v;
        } else {
            self.coverage.push((k.to_string(), v));
        }
    }
    pub fn assume(&mut self, s: &str) {
        self.assumptions.push(s.to_string());
    }
    pub fn violation(&mut self, key: &str, summary: String, replay: J) {
        self.violations.push(Violation { key: key.to_string(), summary, replay });
    }
    pub fn elapsed(&self) -> f64 {
        self.start.elapsed().as_secs_f64()
    }

    /// Writes evidence, replay artefacts, prints verdict lines; returns the process exit code.
    pub fn finish(mut self) -> i32 {
        let known = load_known_findings();
        let root = root();
        let _ = std::fs::create_dir_all(format!("{root}/evidence"));
        let _ = std::fs::create_dir_all(format!("{root}/replay"));

        // split violations into known / new
        let mut known_hits: BTreeMap<String, (usize, String, String)> = BTreeMap::new();
        let mut fresh: Vec<Violation> = vec![];
        for v in std::mem::take(&mut self.violations) {
            if let Some(k) = known.iter().find(|k| k.property == self.id && k.key == v.key) {
                let e = known_hits.entry(k.key.clone()).or_insert((0, k.text.clone(), v.summary.clone()));
                e.0 += 1;
            } else {
                fresh.push(v);
            }
        }
        for (key, (n, text, example)) in &known_hits {
            println!("KNOWN-FINDING: property={} key={} {} [{} instance(s) this run, e.g. {}]", self.id, key, text, n, example);
        }
        for k in known.iter().filter(|k| k.property == self.id) {
            if !known_hits.contains_key(&k.key) {
                println!("note: known finding key={} for {} did not fire in this run", k.key, self.id);
            }
        }

        // group fresh violations by key, write at most 10 replay files per key
        let mut per_key: BTreeMap<String, usize> = BTreeMap::new();
        let mut printed = 0usize;
        for v in &fresh {
            let n = per_key.entry(v.key.clone()).or_insert(0);
            *n += 1;
            if *n > 10 {
                continue;
            }
            let mut body = J::obj(vec![
                ("property", J::s(&self.id)),
                ("key", J::s(&v.key)),
                ("summary", J::s(&v.summary)),
            ]);
            body.push("replay", v.replay.clone());
            let text = body.to_string_pretty();
            let h = fnv(&text);
            let path = format!("{root}/replay/{}-{:016x}.json", self.id, h);
            let _ = std::fs::write(&path, text);
            println!("VIOLATION property={} replay={}", self.id, path);
            println!("  {}: {}", v.key, v.summary);
            printed += 1;
        }
        if fresh.len() > printed {
            println!("  ({} further violations not written; counts per key: {:?})", fresh.len() - printed, per_key);
        }

        let wall = self.start.elapsed().as_secs_f64();
        let mut cov = J::Obj(self.coverage.clone());
        cov.push(
            "known_findings_met",
            J::Obj(known_hits.iter().map(|(k, (n, _, _))| (k.clone(), J::i(*n as i64))).collect()),
        );
        let ev = J::obj(vec![
            ("property_id", J::s(&self.id)),
            ("tier", J::s(self.tier.name())),
            ("seed", J::i(seed() as i64)),
            ("level", J::s(self.level)),
            ("coverage", cov),
            ("assumptions", J::arr_s(self.assumptions.clone())),
            ("wall_s", J::Num(wall)),
            ("violations", J::i(fresh.len() as i64)),
        ]);
        let path = format!("{root}/evidence/{}.json", self.id);
        if let Err(e) = std::fs::write(&path, ev.to_string_pretty()) {
            eprintln!("cannot write evidence {path}: {e}");
            return 2;
        }
        println!(
            "{} {}: {} new violation(s), {} known finding(s), {:.1}s",
            self.id,
            self.tier.name(),
            fresh.len(),
            known_hits.len(),
            wall
        );
        if fresh.is_empty() { 0 } else { 1 }
    }
}

pub fn fnv(s: &str) -> u64 {
    let mut h: u64 = 0xcbf29ce484222325;
    for b in s.bytes() {
        h ^= b as u64;
        h = h.wrapping_mul(0x100000001b3);
    }
    h
}

/// Keeps up to `cap` samples, spread over the run (first few + every 2^k-th).
pub struct Samples {
    pub items: Vec<J>,
    seen: u64,
    cap: usize,
}

impl Samples {
    pub fn new(cap: usize) -> Self {
        Samples { items: vec![], seen: 0, cap }
    }
    pub fn offer(&mut self, f: impl FnOnce() -> J) {
        self.seen += 1;
        if self.items.len() < self.cap && (self.seen <= 3 || self.seen.is_power_of_two()) {
            self.items.push(f());
        }
    }
    pub fn merge(&mut self, other: Samples) {
        for i in other.items {
            if self.items.len() < self.cap {
                self.items.push(i);
            }
        }
        self.seen += other.seen;
    }
}
