//! The complgen library pipeline called exactly in the order `src/main.rs::aot` calls it.

use complgen::check::ValidGrammar;
use complgen::dfa::DFA;
use complgen::parse::{Grammar, HumanSpan};
pub use complgen::parse::Shell;
use complgen::regex::{Regex, RegexInternPool};
use complgen::Error;
use std::cell::RefCell;
use std::panic::{catch_unwind, AssertUnwindSafe};

pub const SHELLS: [(Shell, &str); 4] =
    [(Shell::Bash, "bash"), (Shell::Fish, "fish"), (Shell::Zsh, "zsh"), (Shell::Pwsh, "pwsh")];

pub fn shell_name(s: Shell) -> &'static str {
    match s {
        Shell::Bash => "bash",
        Shell::Fish => "fish",
        Shell::Zsh => "zsh",
        Shell::Pwsh => "pwsh",
    }
}

pub fn array_start(s: Shell) -> u32 {
    match s {
        Shell::Bash => complgen::bash::ARRAY_START,
        Shell::Fish => complgen::fish::ARRAY_START,
        Shell::Zsh => complgen::zsh::ARRAY_START,
        Shell::Pwsh => complgen::pwsh::ARRAY_START,
    }
}

pub struct Compiled {
    pub command: String,
    pub undefined: Vec<(String, HumanSpan)>,
    pub unused: Vec<(String, HumanSpan)>,
    pub unused_specs: Vec<(String, HumanSpan)>,
    pub regex: Regex,
    pub pool: RegexInternPool,
    pub raw: DFA,
    pub min: DFA,
}

pub enum Outcome {
    Ok(Box<Compiled>),
    Err(Error),
    Panic(String),
}

thread_local! {
    static LAST_PANIC: RefCell<String> = RefCell::new(String::new());
}

pub fn install_quiet_panic_hook() {
    std::panic::set_hook(Box::new(|info| {
        let msg = format!("{info}");
        LAST_PANIC.with(|p| *p.borrow_mut() = msg);
    }));
}

pub fn guarded<T>(f: impl FnOnce() -> T) -> Result<T, String> {
    match catch_unwind(AssertUnwindSafe(f)) {
        Ok(v) => Ok(v),
        Err(_) => Err(LAST_PANIC.with(|p| p.borrow().clone())),
    }
}

fn sorted(m: &ustr::UstrMap<HumanSpan>) -> Vec<(String, HumanSpan)> {
    let mut v: Vec<(String, HumanSpan)> = m.iter().map(|(k, s)| (k.to_string(), *s)).collect();
    v.sort_by_key(|(n, s)| (s.line, s.column_start, s.column_end, n.clone()));
    v
}

/// parse -> validate -> regex (+ subword ambiguity check) -> raw DFA -> minimize -> ambiguity check
pub fn compile_unguarded(text: &str, shell: Shell) -> Result<Compiled, Error> {
    let grammar = Grammar::parse(text)?;
    let mut validated = ValidGrammar::from_grammar(grammar, shell)?;
    let mut pool = RegexInternPool::default();
    let regex = Regex::from_valid_grammar(&validated, &mut pool)?;
    // main.rs exempts `_` from the undefined warning
    validated.undefined_nonterminals.remove(&ustr::ustr("_"));
    let raw = DFA::from_regex_raw(regex.clone(), &pool)?;
    let min = raw.clone().minimize();
    min.check_ambiguity_best_effort()?;
    Ok(Compiled {
        command: validated.command.to_string(),
        undefined: sorted(&validated.undefined_nonterminals),
        unused: sorted(&validated.unused_nonterminals),
        unused_specs: sorted(&validated.unused_specializations),
        regex,
        pool,
        raw,
        min,
    })
}

pub fn compile(text: &str, shell: Shell) -> Outcome {
    match guarded(|| compile_unguarded(text, shell)) {
        Ok(Ok(c)) => Outcome::Ok(Box::new(c)),
        Ok(Err(e)) => Outcome::Err(e),
        Err(p) => Outcome::Panic(p),
    }
}

pub fn emit_unguarded(c: &Compiled, shell: Shell) -> Result<Vec<u8>, Error> {
    let mut out: Vec<u8> = vec![];
    match shell {
        Shell::Bash => complgen::bash::write_completion_script(&mut out, &c.command, &c.min)?,
        Shell::Fish => complgen::fish::write_completion_script(&mut out, &c.command, &c.min)?,
        Shell::Zsh => complgen::zsh::write_completion_script(&mut out, &c.command, &c.min)?,
        Shell::Pwsh => complgen::pwsh::write_completion_script(&mut out, &c.command, &c.min)?,
    }
    Ok(out)
}

pub fn emit(c: &Compiled, shell: Shell) -> Result<Vec<u8>, String> {
    match guarded(|| emit_unguarded(c, shell)) {
        Ok(Ok(v)) => Ok(v),
        Ok(Err(e)) => Err(format!("emit error: {e}")),
        Err(p) => Err(format!("panic: {p}")),
    }
}

pub fn dfa_dot(c: &Compiled, shell: Shell) -> Result<Vec<u8>, String> {
    match guarded(|| {
        let mut out: Vec<u8> = vec![];
        // on a copy, through a mutable binding: compiles whether the writer takes &self or &mut self
        #[allow(unused_mut)]
        let mut d = c.min.clone();
        d.to_dot(&mut out, array_start(shell)).map(|_| out)
    }) {
        Ok(Ok(v)) => Ok(v),
        Ok(Err(e)) => Err(format!("to_dot error: {e}")),
        Err(p) => Err(format!("panic: {p}")),
    }
}

pub fn regex_dot(c: &Compiled) -> Result<Vec<u8>, String> {
    match guarded(|| {
        let mut out: Vec<u8> = vec![];
        #[allow(unused_mut)]
        let mut r = c.regex.clone();
        r.to_dot(&mut out, &c.pool).map(|_| out)
    }) {
        Ok(Ok(v)) => Ok(v),
        Ok(Err(e)) => Err(format!("to_dot error: {e}")),
        Err(p) => Err(format!("panic: {p}")),
    }
}

pub fn error_kind(e: &Error) -> &'static str {
    match e {
        Error::ParseError(_) => "ParseError",
        Error::MissingCallVariants => "MissingCallVariants",
        Error::InvalidCommandName(_) => "InvalidCommandName",
        Error::VaryingCommandNames(_) => "VaryingCommandNames",
        Error::NonterminalDefinitionsCycle(_) => "NonterminalDefinitionsCycle",
        Error::DuplicateNonterminalDefinition(..) => "DuplicateNonterminalDefinition",
        Error::UnknownShell(_) => "UnknownShell",
        Error::NonCommandSpecialization(_) => "NonCommandSpecialization",
        Error::UnboundedMatchable(..) => "UnboundedMatchable",
        Error::ConflictingDescriptions(..) => "ConflictingDescriptions",
        Error::SubwordSpaces(..) => "SubwordSpaces",
        Error::AmbiguousDFA(..) => "AmbiguousDFA",
        Error::FromUtf8Error(_) => "FromUtf8Error",
        Error::FmtError(_) => "FmtError",
        Error::IoError(_) => "IoError",
    }
}

/// Strip the signature comment (first line: it embeds `git describe --dirty`, which differs
/// between a build of a clean and a dirty tree and is no part of any property).
pub fn strip_signature(b: &[u8]) -> &[u8] {
    match b.iter().position(|c| *c == b'\n') {
        Some(i) => &b[i + 1..],
        None => b,
    }
}
