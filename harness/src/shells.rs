//! Readers of the emitted scripts: each shell's table statements are read back with that
//! shell's own quoting rules and indexing base into one neutral structure.  A layout a reader
//! does not recognise is an `Err` (machinery), never a verdict.

use std::collections::BTreeMap;

#[derive(Clone, Copy, Debug, PartialEq, Eq)]
pub enum Sh {
    Bash,
    Fish,
    Zsh,
    Pwsh,
}

impl Sh {
    pub fn base(&self) -> u32 {
        match self {
            Sh::Bash | Sh::Pwsh => 0,
            Sh::Fish | Sh::Zsh => 1,
        }
    }
}

/// tables of one automaton, ids exactly as written in the script (base not yet removed)
#[derive(Clone, Debug, Default)]
pub struct Tables {
    pub literals: Vec<String>,
    /// literal id -> description
    pub descr: BTreeMap<u32, String>,
    pub literal_transitions: BTreeMap<u32, BTreeMap<u32, u32>>,
    pub command_transitions: BTreeMap<u32, BTreeMap<u32, u32>>,
    pub compadd_transitions: BTreeMap<u32, BTreeMap<u32, u32>>,
    pub subword_transitions: BTreeMap<u32, BTreeMap<u32, u32>>,
    pub star_transitions: BTreeMap<u32, u32>,
    /// per level: state -> ids
    pub literal_levels: Vec<BTreeMap<u32, Vec<u32>>>,
    pub command_levels: Vec<BTreeMap<u32, Vec<u32>>>,
    pub compadd_levels: Vec<BTreeMap<u32, Vec<u32>>>,
    pub subword_levels: Vec<BTreeMap<u32, Vec<u32>>>,
    pub max_fallback_level: Option<u32>,
    /// names of the table variables this function declares itself (bash: anything else is
    /// looked up in the caller by dynamic scoping)
    pub declared: std::collections::BTreeSet<String>,
}

#[derive(Clone, Debug, Default)]
pub struct Script {
    pub main: Tables,
    pub start_state: Option<u32>,
    pub subs: BTreeMap<u32, Tables>,
    pub commands: BTreeMap<u32, String>,
    pub registered_for: Option<String>,
    /// every string constant met, decoded (for C07)
    pub strings: Vec<String>,
}

// ---------------------------------------------------------------------------------------------
// string constants
// ---------------------------------------------------------------------------------------------

/// Decode a double-quoted string constant starting at `chars[i] == '"'`; returns (text, index
/// after the closing quote).  Fails loudly on anything the shell would expand.
pub fn decode_dq(sh: Sh, chars: &[char], mut i: usize) -> Result<(String, usize), String> {
    if chars.get(i) != Some(&'"') {
        return Err(format!("expected a double quote at offset {i}"));
    }
    i += 1;
    let mut out = String::new();
    loop {
        let Some(&c) = chars.get(i) else { return Err("unterminated string constant".into()) };
        match sh {
            Sh::Bash | Sh::Zsh => match c {
                '"' => return Ok((out, i + 1)),
                '\\' => {
                    let Some(&n) = chars.get(i + 1) else { return Err("unterminated string constant (trailing backslash)".into()) };
                    match n {
                        '$' | '`' | '"' | '\\' => out.push(n),
                        '\n' => {}
                        other => {
                            out.push('\\');
                            out.push(other);
                        }
                    }
                    i += 2;
                    continue;
                }
                '$' => return Err("unescaped `$` inside a double-quoted string: the shell would expand it".into()),
                '`' => return Err("unescaped backquote inside a double-quoted string: the shell would run it".into()),
                _ => out.push(c),
            },
            Sh::Fish => match c {
                '"' => return Ok((out, i + 1)),
                '\\' => {
                    let Some(&n) = chars.get(i + 1) else { return Err("unterminated string constant (trailing backslash)".into()) };
                    match n {
                        '$' | '"' | '\\' => out.push(n),
                        '\n' => {}
                        other => {
                            out.push('\\');
                            out.push(other);
                        }
                    }
                    i += 2;
                    continue;
                }
                '$' => return Err("unescaped `$` inside a fish double-quoted string: the shell would expand it".into()),
                _ => out.push(c),
            },
            Sh::Pwsh => match c {
                '"' => {
                    // a doubled quote is an escaped quote
                    if chars.get(i + 1) == Some(&'"') {
                        out.push('"');
                        i += 2;
                        continue;
                    }
                    // (the PowerShell language specification also lists U+201C/U+201D/U+201E as
                    // double-quote characters; that cannot be confirmed by execution here, so the
                    // decoder does not judge them: see DESIGN.md, unverifiable suspects)
                    return Ok((out, i + 1));
                }
                '`' => {
                    let Some(&n) = chars.get(i + 1) else { return Err("unterminated string constant (trailing backtick)".into()) };
                    match n {
                        '0' => out.push('\0'),
                        'a' => out.push('\u{7}'),
                        'b' => out.push('\u{8}'),
                        'e' => out.push('\u{1b}'),
                        'f' => out.push('\u{c}'),
                        'n' => out.push('\n'),
                        'r' => out.push('\r'),
                        't' => out.push('\t'),
                        'v' => out.push('\u{b}'),
                        'u' => return Err("`u{..} escape not expected".into()),
                        other => out.push(other),
                    }
                    i += 2;
                    continue;
                }
                '$' => return Err("unescaped `$` inside a PowerShell double-quoted string: it would be expanded".into()),
                _ => out.push(c),
            },
        }
        i += 1;
    }
}

struct Cur<'a> {
    c: &'a [char],
    i: usize,
    sh: Sh,
    strings: Vec<String>,
}

impl<'a> Cur<'a> {
    fn peek(&self) -> Option<char> {
        self.c.get(self.i).copied()
    }
    fn skip_blanks(&mut self) {
        while matches!(self.peek(), Some(' ') | Some('\t')) {
            self.i += 1;
        }
    }
    fn skip_ws(&mut self) {
        while matches!(self.peek(), Some(' ') | Some('\t') | Some('\n') | Some('\r')) {
            self.i += 1;
        }
    }
    fn eat(&mut self, s: &str) -> bool {
        let p: Vec<char> = s.chars().collect();
        if self.c.len() >= self.i + p.len() && self.c[self.i..self.i + p.len()] == p[..] {
            self.i += p.len();
            true
        } else {
            false
        }
    }
    fn expect(&mut self, s: &str) -> Result<(), String> {
        if self.eat(s) {
            Ok(())
        } else {
            Err(format!("expected {s:?} at offset {} near {:?}", self.i, self.c[self.i..(self.i + 30).min(self.c.len())].iter().collect::<String>()))
        }
    }
    fn number(&mut self) -> Result<u32, String> {
        let st = self.i;
        while matches!(self.peek(), Some(c) if c.is_ascii_digit()) {
            self.i += 1;
        }
        if st == self.i {
            return Err(format!("expected a number at offset {} near {:?}", self.i, self.c[self.i..(self.i + 30).min(self.c.len())].iter().collect::<String>()));
        }
        self.c[st..self.i].iter().collect::<String>().parse::<u32>().map_err(|e| e.to_string())
    }
    fn dq(&mut self) -> Result<String, String> {
        let (s, j) = decode_dq(self.sh, self.c, self.i)?;
        self.i = j;
        self.strings.push(s.clone());
        Ok(s)
    }
    fn rest_of_line(&mut self) -> String {
        let st = self.i;
        while !matches!(self.peek(), Some('\n') | None) {
            self.i += 1;
        }
        self.c[st..self.i].iter().collect()
    }
}

fn nums(s: &str) -> Result<Vec<u32>, String> {
    s.split_whitespace().map(|x| x.parse::<u32>().map_err(|e| format!("{e}: {x:?}"))).collect()
}

/// `([k]=v [k]=v)` with bare numeric values
fn parse_kv_numbers(s: &str) -> Result<BTreeMap<u32, u32>, String> {
    let t = s.trim();
    let t = t.strip_prefix('(').and_then(|x| x.strip_suffix(')')).ok_or_else(|| format!("expected ( ... ) in {s:?}"))?;
    let mut m = BTreeMap::new();
    for item in t.split_whitespace() {
        let item = item.strip_prefix('[').ok_or_else(|| format!("expected [k]=v in {item:?}"))?;
        let (k, v) = item.split_once("]=").ok_or_else(|| format!("expected [k]=v in {item:?}"))?;
        let k: u32 = k.parse().map_err(|e| format!("{e}"))?;
        let v: u32 = v.parse().map_err(|e| format!("{e}"))?;
        if m.insert(k, v).is_some() {
            return Err(format!("duplicate key {k} in {s:?}"));
        }
    }
    Ok(m)
}

// ---------------------------------------------------------------------------------------------
// bash and zsh
// ---------------------------------------------------------------------------------------------

fn level_slot(v: &mut Vec<BTreeMap<u32, Vec<u32>>>, l: usize) -> &mut BTreeMap<u32, Vec<u32>> {
    while v.len() <= l {
        v.push(BTreeMap::new());
    }
    &mut v[l]
}

/// one statement of a bash/zsh function body that declares or fills a table; returns false if
/// the line is not a table statement (code)
fn bashlike_statement(cur: &mut Cur, t: &mut Tables, prefix: &str, start_state: &mut Option<u32>) -> Result<bool, String> {
    let save = cur.i;
    cur.skip_blanks();
    let line_start = cur.i;
    // strip the declaration keyword
    let mut declared = false;
    for kw in ["local -a ", "local -A ", "local ", "declare -a ", "declare -A ", "declare "] {
        if cur.eat(kw) {
            declared = true;
            break;
        }
    }
    // variable name
    let st = cur.i;
    while matches!(cur.peek(), Some(c) if c.is_ascii_alphanumeric() || c == '_') {
        cur.i += 1;
    }
    let name_full: String = cur.c[st..cur.i].iter().collect();
    let Some(name) = name_full.strip_prefix(prefix) else {
        cur.i = save;
        return Ok(false);
    };
    let name = name.to_string();
    let known = ["literals", "literal_transitions", "command_transitions", "compadd_transitions", "subword_transitions", "star_transitions", "max_fallback_level", "descriptions", "descr_id_from_literal_id", "state"];
    let is_level = ["literal_transitions_level_", "commands_level_", "compadd_commands_level_", "subword_transitions_level_"].iter().any(|p| name.starts_with(p));
    if !known.contains(&name.as_str()) && !is_level {
        cur.i = save;
        return Ok(false);
    }
    let _ = line_start;
    if declared {
        t.declared.insert(name.clone());
    }
    match cur.peek() {
        Some('[') => {
            // name[k]="( ... )"  or  descriptions[k]="text"
            cur.i += 1;
            let k = cur.number()?;
            cur.expect("]=")?;
            let v = cur.dq()?;
            match name.as_str() {
                "literal_transitions" => {
                    t.literal_transitions.insert(k, parse_kv_numbers(&v)?);
                }
                "command_transitions" => {
                    t.command_transitions.insert(k, parse_kv_numbers(&v)?);
                }
                "compadd_transitions" => {
                    t.compadd_transitions.insert(k, parse_kv_numbers(&v)?);
                }
                "subword_transitions" => {
                    t.subword_transitions.insert(k, parse_kv_numbers(&v)?);
                }
                "descriptions" => {
                    t.descr.insert(u32::MAX - k, v); // resolved through descr_id_from_literal_id below
                }
                other => return Err(format!("unexpected indexed assignment to {other}")),
            }
            Ok(true)
        }
        Some('=') => {
            cur.i += 1;
            if name == "max_fallback_level" {
                t.max_fallback_level = Some(cur.number()?);
                return Ok(true);
            }
            if name == "state" {
                // `local state=N` (bash) / `declare state=N` (zsh): the start state
                if declared {
                    if let Ok(n) = cur.number() {
                        if start_state.is_none() {
                            *start_state = Some(n);
                        }
                        return Ok(true);
                    }
                }
                cur.i = save;
                return Ok(false);
            }
            cur.expect("(")?;
            // list or assoc initializer
            if name == "literals" {
                loop {
                    cur.skip_ws();
                    if cur.eat(")") {
                        break;
                    }
                    let s = cur.dq()?;
                    t.literals.push(s);
                }
                return Ok(true);
            }
            // assoc: [k]=v or [k]="v v"
            let mut kv_num: BTreeMap<u32, u32> = BTreeMap::new();
            let mut kv_list: BTreeMap<u32, Vec<u32>> = BTreeMap::new();
            loop {
                cur.skip_ws();
                if cur.eat(")") {
                    break;
                }
                cur.expect("[")?;
                let k = cur.number()?;
                cur.expect("]=")?;
                if cur.peek() == Some('"') {
                    let v = cur.dq()?;
                    if kv_list.insert(k, nums(&v)?).is_some() {
                        return Err(format!("duplicate key {k} in {name}"));
                    }
                } else {
                    let v = cur.number()?;
                    if kv_num.insert(k, v).is_some() {
                        return Err(format!("duplicate key {k} in {name}"));
                    }
                }
            }
            if name == "star_transitions" {
                t.star_transitions = kv_num;
            } else if name == "descr_id_from_literal_id" {
                // literal id -> description id
                for (lit, d) in kv_num {
                    t.descr.insert(lit, format!("\u{0}DESCR{d}"));
                }
            } else if let Some(l) = name.strip_prefix("literal_transitions_level_") {
                *level_slot(&mut t.literal_levels, l.parse().map_err(|_| "level")?) = kv_list;
            } else if let Some(l) = name.strip_prefix("compadd_commands_level_") {
                *level_slot(&mut t.compadd_levels, l.parse().map_err(|_| "level")?) = kv_list;
            } else if let Some(l) = name.strip_prefix("commands_level_") {
                *level_slot(&mut t.command_levels, l.parse().map_err(|_| "level")?) = kv_list;
            } else if let Some(l) = name.strip_prefix("subword_transitions_level_") {
                *level_slot(&mut t.subword_levels, l.parse().map_err(|_| "level")?) = kv_list;
            } else if ["literal_transitions", "command_transitions", "compadd_transitions", "subword_transitions", "descriptions"].contains(&name.as_str()) {
                // `local -A x=()` : empty declaration
                if !kv_num.is_empty() || !kv_list.is_empty() {
                    return Err(format!("unexpected non-empty initializer of {name}"));
                }
            } else {
                return Err(format!("unexpected initializer of {name}"));
            }
            Ok(true)
        }
        _ => {
            // `local -A subword_transitions` without initializer
            if declared {
                Ok(true)
            } else {
                cur.i = save;
                Ok(false)
            }
        }
    }
}

/// resolve zsh's two-step description tables (descriptions[d] + descr_id_from_literal_id[lit]=d)
fn resolve_descr_indirection(t: &mut Tables) -> Result<(), String> {
    let texts: BTreeMap<u32, String> = t.descr.iter().filter(|(k, _)| **k > u32::MAX / 2).map(|(k, v)| (u32::MAX - *k, v.clone())).collect();
    let refs: Vec<(u32, String)> = t.descr.iter().filter(|(k, _)| **k <= u32::MAX / 2).map(|(k, v)| (*k, v.clone())).collect();
    t.descr.clear();
    for (lit, r) in refs {
        let d: u32 = r.strip_prefix("\u{0}DESCR").ok_or("descr ref")?.parse().map_err(|_| "descr id")?;
        let text = texts.get(&d).ok_or_else(|| format!("literal {lit} refers to description {d}, which is not defined"))?;
        t.descr.insert(lit, text.clone());
    }
    Ok(())
}

fn read_bashlike(text: &str, cmd: &str, sh: Sh) -> Result<Script, String> {
    let chars: Vec<char> = text.chars().collect();
    let mut cur = Cur { c: &chars, i: 0, sh, strings: vec![] };
    let mut script = Script::default();
    let prefix_sub = if sh == Sh::Zsh { "subword_" } else { "" };
    let mut shapes: BTreeMap<u32, Tables> = BTreeMap::new();
    let mut wrapper_shape: BTreeMap<u32, u32> = BTreeMap::new();
    #[derive(PartialEq)]
    enum Ctx {
        Top,
        Cmd(u32),
        Sub(u32),
        Shape(u32),
        Main,
        Matcher,
        Other,
    }
    let mut ctx = Ctx::Top;
    let mut body = String::new();
    let mut matcher_body = String::new();
    let mut cur_tables = Tables::default();
    let mut start_state: Option<u32> = None;
    while cur.i < chars.len() {
        // at the beginning of a line
        let line_start = cur.i;
        if ctx == Ctx::Top {
            let line = cur.rest_of_line();
            cur.eat("\n");
            let l = line.trim_end();
            if let Some(rest) = l.strip_prefix(&format!("_{cmd}_cmd_")) {
                if let Some(id) = rest.strip_suffix(" () {") {
                    ctx = Ctx::Cmd(id.parse().map_err(|_| format!("command id in {l:?}"))?);
                    body.clear();
                    continue;
                }
            }
            if let Some(rest) = l.strip_prefix(&format!("_{cmd}_subword_shape_")) {
                if let Some(id) = rest.strip_suffix(" () {") {
                    ctx = Ctx::Shape(id.parse().map_err(|_| format!("shape id in {l:?}"))?);
                    cur_tables = Tables::default();
                    continue;
                }
            }
            if let Some(rest) = l.strip_prefix(&format!("_{cmd}_subword_")) {
                if let Some(id) = rest.strip_suffix(" () {") {
                    ctx = Ctx::Sub(id.parse().map_err(|_| format!("subword id in {l:?}"))?);
                    cur_tables = Tables::default();
                    continue;
                }
            }
            if l == format!("_{cmd} () {{") {
                ctx = Ctx::Main;
                cur_tables = Tables::default();
                continue;
            }
            if l == format!("_{cmd}_subword () {{") {
                ctx = Ctx::Matcher;
                matcher_body.clear();
                continue;
            }
            if l.ends_with(" () {") {
                ctx = Ctx::Other;
                continue;
            }
            if let Some(rest) = l.strip_prefix("complete -o nospace -F ") {
                let mut it = rest.split(' ');
                let f = it.next().unwrap_or("");
                let c = it.next().unwrap_or("");
                if f == format!("_{cmd}") {
                    script.registered_for = Some(c.to_string());
                }
            }
            if let Some(rest) = l.trim_start().strip_prefix("compdef ") {
                let mut it = rest.split(' ');
                let f = it.next().unwrap_or("");
                let c = it.next().unwrap_or("");
                if f == format!("_{cmd}") {
                    script.registered_for = Some(c.to_string());
                }
            }
            let _ = line_start;
            continue;
        }
        // inside a function
        if chars[cur.i] == '}' && (cur.i + 1 >= chars.len() || chars[cur.i + 1] == '\n') {
            // end of function
            match std::mem::replace(&mut ctx, Ctx::Top) {
                Ctx::Cmd(id) => {
                    script.commands.insert(id, body.trim().to_string());
                }
                Ctx::Sub(id) => {
                    resolve_descr_indirection(&mut cur_tables)?;
                    script.subs.insert(id, std::mem::take(&mut cur_tables));
                }
                Ctx::Shape(id) => {
                    shapes.insert(id, std::mem::take(&mut cur_tables));
                }
                Ctx::Main => {
                    resolve_descr_indirection(&mut cur_tables)?;
                    script.main = std::mem::take(&mut cur_tables);
                    script.start_state = start_state;
                }
                _ => {}
            }
            cur.rest_of_line();
            cur.eat("\n");
            continue;
        }
        match ctx {
            Ctx::Cmd(_) => {
                let line = cur.rest_of_line();
                cur.eat("\n");
                body.push_str(&line);
                body.push('\n');
            }
            Ctx::Sub(id) | Ctx::Shape(id) => {
                let mut dummy = None;
                if !bashlike_statement(&mut cur, &mut cur_tables, prefix_sub, &mut dummy)? {
                    let line = cur.rest_of_line();
                    // wrapper -> shared shape function
                    let l = line.trim();
                    if let Some(rest) = l.strip_prefix(&format!("_{cmd}_subword_shape_")) {
                        let k: u32 = rest.split(' ').next().unwrap_or("").parse().map_err(|_| format!("shape call {l:?}"))?;
                        if matches!(ctx, Ctx::Sub(_)) {
                            wrapper_shape.insert(id, k);
                        }
                    }
                } else {
                    cur.rest_of_line();
                }
                cur.eat("\n");
            }
            Ctx::Main => {
                if !bashlike_statement(&mut cur, &mut cur_tables, "", &mut start_state)? {
                    cur.rest_of_line();
                } else {
                    cur.rest_of_line();
                }
                cur.eat("\n");
            }
            Ctx::Matcher => {
                let line = cur.rest_of_line();
                cur.eat("\n");
                matcher_body.push_str(&line);
                matcher_body.push('\n');
            }
            _ => {
                cur.rest_of_line();
                cur.eat("\n");
            }
        }
    }
    // wrappers that delegate to a shared shape function: literals are their own, the rest shared
    for (id, k) in wrapper_shape {
        let shape = shapes.get(&k).ok_or_else(|| format!("wrapper {id} calls shape {k}, which is not defined"))?.clone();
        let w = script.subs.get_mut(&id).ok_or("wrapper")?;
        let lits = std::mem::take(&mut w.literals);
        let descr = std::mem::take(&mut w.descr);
        let mut declared = std::mem::take(&mut w.declared);
        *w = shape;
        w.literals = lits;
        if !descr.is_empty() {
            w.descr = descr;
        }
        declared.extend(w.declared.iter().cloned());
        w.declared = declared;
    }
    // bash: the shared matcher reads its tables by NAME; a name the wrapper (or its shape
    // function) does not declare resolves, by dynamic scoping, to the caller's (`_cmd`'s) table
    if sh == Sh::Bash {
        let main = script.main.clone();
        let reads_commands = matcher_body.contains("command_transitions[");
        let reads_star = matcher_body.contains("star_transitions[");
        for (_, w) in script.subs.iter_mut() {
            if !w.declared.contains("max_fallback_level") {
                w.max_fallback_level = main.max_fallback_level;
            }
            if !w.declared.contains("literals") {
                w.literals = main.literals.clone();
            }
            if !w.declared.contains("literal_transitions") {
                w.literal_transitions = main.literal_transitions.clone();
            }
            if reads_commands && !w.declared.contains("command_transitions") {
                w.command_transitions = main.command_transitions.clone();
            }
            if reads_star && !w.declared.contains("star_transitions") {
                w.star_transitions = main.star_transitions.clone();
            }
            let maxl = w.max_fallback_level.unwrap_or(0) as usize;
            for l in 0..=maxl {
                if !w.declared.contains(&format!("literal_transitions_level_{l}")) {
                    if let Some(m) = main.literal_levels.get(l) {
                        *level_slot(&mut w.literal_levels, l) = m.clone();
                    }
                }
                if matcher_body.contains("commands_level_") && !w.declared.contains(&format!("commands_level_{l}")) {
                    if let Some(m) = main.command_levels.get(l) {
                        *level_slot(&mut w.command_levels, l) = m.clone();
                    }
                }
            }
            // levels above the matcher's loop bound are never read
            w.literal_levels.truncate(maxl + 1);
            w.command_levels.truncate(maxl + 1);
        }
    }
    script.strings = cur.strings;
    Ok(script)
}

pub fn read_bash(text: &str, cmd: &str) -> Result<Script, String> {
    read_bashlike(text, cmd, Sh::Bash)
}

pub fn read_zsh(text: &str, cmd: &str) -> Result<Script, String> {
    read_bashlike(text, cmd, Sh::Zsh)
}

// ---------------------------------------------------------------------------------------------
// fish
// ---------------------------------------------------------------------------------------------

/// the words of a fish `set` statement after the variable name: bare numbers or quoted strings
fn fish_words(cur: &mut Cur) -> Result<Vec<String>, String> {
    let mut out = vec![];
    loop {
        cur.skip_blanks();
        match cur.peek() {
            None | Some('\n') => break,
            Some('"') => out.push(cur.dq()?),
            Some(_) => {
                let st = cur.i;
                while !matches!(cur.peek(), None | Some(' ') | Some('\t') | Some('\n')) {
                    cur.i += 1;
                }
                out.push(cur.c[st..cur.i].iter().collect());
            }
        }
    }
    Ok(out)
}

fn fish_statement(cur: &mut Cur, t: &mut Tables, prefix: &str, start_state: &mut Option<u32>, froms: &mut BTreeMap<String, Vec<u32>>, subword_ids: &mut BTreeMap<u32, Vec<u32>>) -> Result<bool, String> {
    let save = cur.i;
    cur.skip_blanks();
    if !cur.eat("set ") {
        cur.i = save;
        return Ok(false);
    }
    let _ = cur.eat("--global ");
    let st = cur.i;
    while matches!(cur.peek(), Some(c) if c.is_ascii_alphanumeric() || c == '_') {
        cur.i += 1;
    }
    let name_full: String = cur.c[st..cur.i].iter().collect();
    let name = if name_full == "subword_max_fallback_level" {
        "max_fallback_level".to_string()
    } else {
        match name_full.strip_prefix(prefix) {
            Some(n) => n.to_string(),
            None => {
                cur.i = save;
                return Ok(false);
            }
        }
    };
    let mut index: Option<u32> = None;
    if cur.peek() == Some('[') {
        cur.i += 1;
        match cur.number() {
            Ok(n) => index = Some(n),
            Err(_) => {
                cur.i = save;
                return Ok(false);
            }
        }
        cur.expect("]")?;
    }
    let is_level = ["literal_froms_level_", "literal_inputs_level_", "command_froms_level_", "commands_level_", "subword_froms_level_", "subwords_level_"].iter().any(|p| name.starts_with(p));
    let known = ["literals", "descrs", "descr_literal_ids", "descr_ids", "literal_transitions_inputs", "literal_transitions_tos", "command_transitions", "star_transitions_from", "star_transitions_to", "max_fallback_level", "subword_transitions_ids", "subword_transitions_tos", "state"];
    if !known.contains(&name.as_str()) && !is_level {
        cur.i = save;
        return Ok(false);
    }
    if name == "state" {
        // `set state N` right after the tables = start state; later `set state $...` is code
        let save2 = cur.i;
        cur.skip_blanks();
        match cur.number() {
            Ok(n) if matches!(cur.peek(), Some('\n') | None) => {
                if start_state.is_none() {
                    *start_state = Some(n);
                }
                return Ok(true);
            }
            _ => {
                cur.i = save2;
                cur.i = save;
                return Ok(false);
            }
        }
    }
    let words = match fish_words(cur) {
        Ok(w) => w,
        Err(e) => return Err(e),
    };
    // anything holding a variable reference is code, not data
    if words.iter().any(|w| w.contains('$') || w.contains('(')) && name != "literals" && name != "descrs" {
        cur.i = save;
        return Ok(false);
    }
    match name.as_str() {
        "literals" => t.literals = words,
        "descrs" => {
            if index.is_none() && words.is_empty() {
                return Ok(true); // `set descrs`: reset
            }
            let k = index.ok_or("descrs without index")?;
            if words.len() == 1 {
                t.descr.insert(u32::MAX - k, words[0].clone());
            } else if words.is_empty() {
                // `set descrs` : reset
            } else {
                return Err("descrs[k] with several words".into());
            }
        }
        "descr_literal_ids" => {
            froms.insert("descr_literal_ids".into(), words.iter().map(|w| w.parse::<u32>().map_err(|e| e.to_string())).collect::<Result<_, _>>()?);
        }
        "descr_ids" => {
            froms.insert("descr_ids".into(), words.iter().map(|w| w.parse::<u32>().map_err(|e| e.to_string())).collect::<Result<_, _>>()?);
        }
        "literal_transitions_inputs" | "literal_transitions_tos" => {
            // element k (1-based) belongs to state k-1+1 ... the list is indexed by state
            let lists: Vec<Vec<u32>> = words.iter().map(|w| nums(w)).collect::<Result<_, _>>()?;
            froms.insert(name.clone(), vec![]);
            for (k, l) in lists.into_iter().enumerate() {
                let state = (k + 1) as u32; // fish lists are 1-based and states are printed 1-based
                let e = t.literal_transitions.entry(state).or_default();
                if name == "literal_transitions_inputs" {
                    for (j, lit) in l.iter().enumerate() {
                        e.insert(*lit, u32::MAX - j as u32); // placeholder target, filled by _tos
                    }
                } else {
                    // fill targets in key insertion order: need the inputs order -> stored as placeholders
                    let mut by_pos: Vec<(u32, u32)> = e.iter().map(|(lit, ph)| (u32::MAX - *ph, *lit)).collect();
                    by_pos.sort();
                    if by_pos.len() != l.len() {
                        return Err(format!("state {state}: {} inputs but {} targets", by_pos.len(), l.len()));
                    }
                    for ((_, lit), to) in by_pos.into_iter().zip(l.into_iter()) {
                        e.insert(lit, to);
                    }
                }
            }
            t.literal_transitions.retain(|_, m| !m.is_empty());
        }
        "command_transitions" => {
            if index.is_none() && words.is_empty() {
                return Ok(true); // reset
            }
            let k = index.ok_or("command_transitions without index")?;
            if words.len() != 1 {
                if words.is_empty() {
                    return Ok(true);
                }
                return Err("command_transitions[k] with several words".into());
            }
            let mut m = BTreeMap::new();
            for pair in words[0].split_whitespace() {
                let (c, to) = pair.split_once(',').ok_or_else(|| format!("expected cmd,to in {pair:?}"))?;
                m.insert(c.parse::<u32>().map_err(|e| e.to_string())?, to.parse::<u32>().map_err(|e| e.to_string())?);
            }
            t.command_transitions.insert(k, m);
        }
        "star_transitions_from" | "star_transitions_to" => {
            froms.insert(name.clone(), words.iter().map(|w| w.parse::<u32>().map_err(|e| e.to_string())).collect::<Result<_, _>>()?);
        }
        "max_fallback_level" => {
            if words.len() == 1 {
                t.max_fallback_level = Some(words[0].parse().map_err(|_| "max_fallback_level")?);
            }
        }
        "subword_transitions_ids" => {
            let k = index.ok_or("subword_transitions_ids without index")?;
            subword_ids.insert(k, nums(&words.join(" "))?);
        }
        "subword_transitions_tos" => {
            let k = index.ok_or("subword_transitions_tos without index")?;
            let tos = nums(&words.join(" "))?;
            let ids = subword_ids.get(&k).ok_or("subword_transitions_tos before _ids")?;
            if ids.len() != tos.len() {
                return Err(format!("state {k}: {} subword ids but {} targets", ids.len(), tos.len()));
            }
            t.subword_transitions.insert(k, ids.iter().copied().zip(tos.into_iter()).collect());
        }
        other => {
            // level tables: X_froms_level_L  +  X_level_L / X_inputs_level_L
            let (kind, which, level) = if let Some(l) = other.strip_prefix("literal_froms_level_") {
                ("literal", "froms", l)
            } else if let Some(l) = other.strip_prefix("literal_inputs_level_") {
                ("literal", "vals", l)
            } else if let Some(l) = other.strip_prefix("command_froms_level_") {
                ("command", "froms", l)
            } else if let Some(l) = other.strip_prefix("commands_level_") {
                ("command", "vals", l)
            } else if let Some(l) = other.strip_prefix("subword_froms_level_") {
                ("subword", "froms", l)
            } else if let Some(l) = other.strip_prefix("subwords_level_") {
                ("subword", "vals", l)
            } else {
                return Err(format!("unknown fish table {other}"));
            };
            let level: usize = level.parse().map_err(|_| format!("level in {other}"))?;
            let key = format!("{kind}_froms_{level}");
            if which == "froms" {
                froms.insert(key, words.iter().map(|w| w.parse::<u32>().map_err(|e| e.to_string())).collect::<Result<_, _>>()?);
                // make sure the level exists even when empty
                match kind {
                    "literal" => {
                        level_slot(&mut t.literal_levels, level);
                    }
                    "command" => {
                        level_slot(&mut t.command_levels, level);
                    }
                    _ => {
                        level_slot(&mut t.subword_levels, level);
                    }
                }
            } else {
                let fr = froms.get(&key).cloned().ok_or_else(|| format!("{other} before its froms table"))?;
                if fr.len() != words.len() {
                    return Err(format!("{other}: {} states but {} value cells", fr.len(), words.len()));
                }
                let slot = match kind {
                    "literal" => level_slot(&mut t.literal_levels, level),
                    "command" => level_slot(&mut t.command_levels, level),
                    _ => level_slot(&mut t.subword_levels, level),
                };
                for (s, w) in fr.into_iter().zip(words.iter()) {
                    if slot.insert(s, nums(w)?).is_some() {
                        return Err(format!("{other}: state {s} listed twice"));
                    }
                }
            }
        }
    }
    Ok(true)
}

fn fish_finish(t: &mut Tables, froms: &BTreeMap<String, Vec<u32>>) -> Result<(), String> {
    // descriptions: descr_literal_ids[i] has description descrs[descr_ids[i]]
    let texts: BTreeMap<u32, String> = t.descr.iter().filter(|(k, _)| **k > u32::MAX / 2).map(|(k, v)| (u32::MAX - *k, v.clone())).collect();
    t.descr.clear();
    let lits = froms.get("descr_literal_ids").cloned().unwrap_or_default();
    let ds = froms.get("descr_ids").cloned().unwrap_or_default();
    if lits.len() != ds.len() {
        return Err(format!("{} described literal ids but {} description ids", lits.len(), ds.len()));
    }
    for (l, d) in lits.into_iter().zip(ds.into_iter()) {
        let text = texts.get(&d).ok_or_else(|| format!("literal {l} refers to description {d}, which is not set"))?;
        t.descr.insert(l, text.clone());
    }
    let f = froms.get("star_transitions_from").cloned().unwrap_or_default();
    let to = froms.get("star_transitions_to").cloned().unwrap_or_default();
    if f.len() != to.len() {
        return Err("star_transitions_from/to differ in length".into());
    }
    for (a, b) in f.into_iter().zip(to.into_iter()) {
        t.star_transitions.insert(a, b);
    }
    // unfilled placeholders?
    for (s, m) in &t.literal_transitions {
        for (l, to) in m {
            if *to > u32::MAX / 2 {
                return Err(format!("state {s}: literal {l} has an input but no target"));
            }
        }
    }
    Ok(())
}

pub fn read_fish(text: &str, cmd: &str) -> Result<Script, String> {
    let chars: Vec<char> = text.chars().collect();
    let mut cur = Cur { c: &chars, i: 0, sh: Sh::Fish, strings: vec![] };
    let mut script = Script::default();
    #[derive(PartialEq, Clone, Copy)]
    enum Ctx {
        Top,
        Cmd(u32),
        Sub(u32),
        Shape(u32),
        Main,
        Other,
    }
    let mut ctx = Ctx::Top;
    let mut body = String::new();
    let mut t = Tables::default();
    let mut froms: BTreeMap<String, Vec<u32>> = BTreeMap::new();
    let mut sub_ids: BTreeMap<u32, Vec<u32>> = BTreeMap::new();
    let mut shapes: BTreeMap<u32, (Tables, BTreeMap<String, Vec<u32>>)> = BTreeMap::new();
    let mut sub_froms: BTreeMap<u32, BTreeMap<String, Vec<u32>>> = BTreeMap::new();
    let mut wrapper_shape: BTreeMap<u32, u32> = BTreeMap::new();
    let mut start_state = None;
    let mut depth = 0usize;
    while cur.i < chars.len() {
        if ctx == Ctx::Top {
            let line = cur.rest_of_line();
            cur.eat("\n");
            let l = line.trim_end();
            if let Some(rest) = l.strip_prefix(&format!("function _{cmd}_cmd_")) {
                ctx = Ctx::Cmd(rest.trim().parse().map_err(|_| format!("command id in {l:?}"))?);
                body.clear();
            } else if let Some(rest) = l.strip_prefix(&format!("function _{cmd}_subword_shape_")) {
                ctx = Ctx::Shape(rest.trim().parse().map_err(|_| format!("shape id in {l:?}"))?);
                t = Tables::default();
                froms.clear();
            } else if let Some(rest) = l.strip_prefix(&format!("function _{cmd}_subword_")) {
                ctx = Ctx::Sub(rest.trim().parse().map_err(|_| format!("subword id in {l:?}"))?);
                t = Tables::default();
                froms.clear();
            } else if l == format!("function _{cmd}") {
                ctx = Ctx::Main;
                t = Tables::default();
                froms.clear();
                sub_ids.clear();
                depth = 0;
            } else if l.starts_with("function ") {
                ctx = Ctx::Other;
                depth = 0;
            } else if let Some(rest) = l.strip_prefix("complete --command ") {
                let c = rest.split(' ').next().unwrap_or("");
                if rest.contains(&format!("\"(_{cmd})\"")) {
                    script.registered_for = Some(c.to_string());
                }
            }
            continue;
        }
        // function end: a line that is exactly `end` at column 0
        let is_end = cur.eat("end\n") || (cur.c[cur.i..].iter().collect::<String>() == "end");
        if is_end {
            match ctx {
                Ctx::Cmd(id) => {
                    script.commands.insert(id, body.trim().to_string());
                }
                Ctx::Sub(id) => {
                    sub_froms.insert(id, froms.clone());
                    script.subs.insert(id, std::mem::take(&mut t));
                }
                Ctx::Shape(id) => {
                    shapes.insert(id, (std::mem::take(&mut t), froms.clone()));
                }
                Ctx::Main => {
                    fish_finish(&mut t, &froms)?;
                    script.main = std::mem::take(&mut t);
                    script.start_state = start_state;
                }
                _ => {}
            }
            ctx = Ctx::Top;
            continue;
        }
        let _ = depth;
        match ctx {
            Ctx::Cmd(_) => {
                let line = cur.rest_of_line();
                cur.eat("\n");
                body.push_str(&line);
                body.push('\n');
            }
            Ctx::Sub(id) | Ctx::Shape(id) => {
                let mut dummy = None;
                let mut dummy_ids = BTreeMap::new();
                if !fish_statement(&mut cur, &mut t, "subword_", &mut dummy, &mut froms, &mut dummy_ids)? {
                    let line = cur.rest_of_line();
                    if let Some(rest) = line.trim().strip_prefix(&format!("_{cmd}_subword_shape_")) {
                        let k: u32 = rest.split(' ').next().unwrap_or("").parse().map_err(|_| format!("shape call {line:?}"))?;
                        if matches!(ctx, Ctx::Sub(_)) {
                            wrapper_shape.insert(id, k);
                        }
                    }
                }
                cur.eat("\n");
            }
            Ctx::Main => {
                if !fish_statement(&mut cur, &mut t, "", &mut start_state, &mut froms, &mut sub_ids)? {
                    cur.rest_of_line();
                }
                cur.eat("\n");
            }
            _ => {
                cur.rest_of_line();
                cur.eat("\n");
            }
        }
    }
    // wrappers: own literal/description variables, tables from the shared shape function if any
    let ids: Vec<u32> = script.subs.keys().copied().collect();
    for id in ids {
        let mut fr = sub_froms.remove(&id).unwrap_or_default();
        if let Some(k) = wrapper_shape.get(&id) {
            let (shape, sfr) = shapes.get(k).ok_or_else(|| format!("wrapper {id} calls shape {k}, which is not defined"))?.clone();
            let w = script.subs.get_mut(&id).unwrap();
            let lits = std::mem::take(&mut w.literals);
            let descr = std::mem::take(&mut w.descr);
            *w = shape;
            w.literals = lits;
            w.descr = descr;
            for (k2, v) in sfr {
                fr.entry(k2).or_insert(v);
            }
        }
        fish_finish(script.subs.get_mut(&id).unwrap(), &fr)?;
    }
    script.strings = cur.strings;
    Ok(script)
}

// ---------------------------------------------------------------------------------------------
// PowerShell
// ---------------------------------------------------------------------------------------------

/// `@{k=v;k=v}` with numeric values, or `@{k=@(a,b); ...}` with list values
fn pwsh_hash(cur: &mut Cur) -> Result<(BTreeMap<u32, u32>, BTreeMap<u32, Vec<u32>>), String> {
    cur.expect("@{")?;
    let mut nums_: BTreeMap<u32, u32> = BTreeMap::new();
    let mut lists: BTreeMap<u32, Vec<u32>> = BTreeMap::new();
    loop {
        cur.skip_ws();
        if cur.eat("}") {
            break;
        }
        let k = cur.number()?;
        cur.skip_blanks();
        cur.expect("=")?;
        cur.skip_blanks();
        if cur.eat("@(") {
            let mut v = vec![];
            loop {
                cur.skip_blanks();
                if cur.eat(")") {
                    break;
                }
                v.push(cur.number()?);
                cur.skip_blanks();
                let _ = cur.eat(",");
            }
            if lists.insert(k, v).is_some() {
                return Err(format!("duplicate key {k}"));
            }
        } else {
            let v = cur.number()?;
            if nums_.insert(k, v).is_some() {
                return Err(format!("duplicate key {k}"));
            }
        }
        cur.skip_blanks();
        let _ = cur.eat(";");
    }
    Ok((nums_, lists))
}

fn pwsh_statement(cur: &mut Cur, t: &mut Tables, start_state: &mut Option<u32>) -> Result<bool, String> {
    let save = cur.i;
    cur.skip_blanks();
    if !cur.eat("$") {
        cur.i = save;
        return Ok(false);
    }
    let st = cur.i;
    while matches!(cur.peek(), Some(c) if c.is_ascii_alphanumeric() || c == '_') {
        cur.i += 1;
    }
    let name: String = cur.c[st..cur.i].iter().collect();
    let is_level = ["literal_transitions_level_", "commands_level_", "subword_transitions_level_"].iter().any(|p| name.starts_with(p));
    let known = ["literals", "descriptions", "literal_transitions", "command_transitions", "subword_transitions", "star_transitions", "max_fallback_level", "state"];
    if !known.contains(&name.as_str()) && !is_level {
        cur.i = save;
        return Ok(false);
    }
    let mut index = None;
    if cur.peek() == Some('[') {
        cur.i += 1;
        match cur.number() {
            Ok(n) => index = Some(n),
            Err(_) => {
                cur.i = save;
                return Ok(false);
            }
        }
        cur.expect("]")?;
    }
    cur.skip_blanks();
    if !cur.eat("= ") && !cur.eat("=") {
        cur.i = save;
        return Ok(false);
    }
    cur.skip_blanks();
    match name.as_str() {
        "literals" => {
            cur.expect("@(")?;
            loop {
                cur.skip_ws();
                if cur.eat(")") {
                    break;
                }
                t.literals.push(cur.dq()?);
                cur.skip_blanks();
                let _ = cur.eat(",");
            }
        }
        "descriptions" => {
            cur.expect("@{")?;
            loop {
                cur.skip_ws();
                if cur.eat("}") {
                    break;
                }
                let k = cur.number()?;
                cur.skip_blanks();
                cur.expect("=")?;
                cur.skip_blanks();
                let v = cur.dq()?;
                t.descr.insert(k, v);
                cur.skip_blanks();
                let _ = cur.eat(";");
            }
        }
        "max_fallback_level" => match cur.number() {
            Ok(n) => t.max_fallback_level = Some(n),
            Err(_) => {
                cur.i = save;
                return Ok(false);
            }
        },
        "state" => match cur.number() {
            Ok(n) if matches!(cur.peek(), Some('\n') | None) => {
                if start_state.is_none() {
                    *start_state = Some(n);
                }
            }
            _ => {
                cur.i = save;
                return Ok(false);
            }
        },
        _ => {
            if cur.peek() != Some('@') {
                cur.i = save;
                return Ok(false);
            }
            let (n, l) = pwsh_hash(cur)?;
            match (name.as_str(), index) {
                ("literal_transitions", Some(k)) => {
                    t.literal_transitions.insert(k, n);
                }
                ("command_transitions", Some(k)) => {
                    t.command_transitions.insert(k, n);
                }
                ("subword_transitions", Some(k)) => {
                    t.subword_transitions.insert(k, n);
                }
                ("star_transitions", None) => t.star_transitions = n,
                ("literal_transitions", None) | ("command_transitions", None) | ("subword_transitions", None) => {
                    if !n.is_empty() || !l.is_empty() {
                        return Err(format!("unexpected non-empty initializer of ${name}"));
                    }
                }
                (other, None) => {
                    if let Some(lv) = other.strip_prefix("literal_transitions_level_") {
                        *level_slot(&mut t.literal_levels, lv.parse().map_err(|_| "level")?) = l;
                    } else if let Some(lv) = other.strip_prefix("subword_transitions_level_") {
                        *level_slot(&mut t.subword_levels, lv.parse().map_err(|_| "level")?) = l;
                    } else if let Some(lv) = other.strip_prefix("commands_level_") {
                        *level_slot(&mut t.command_levels, lv.parse().map_err(|_| "level")?) = l;
                    } else {
                        return Err(format!("unknown PowerShell table ${other}"));
                    }
                }
                (other, Some(_)) => return Err(format!("unexpected indexed assignment to ${other}")),
            }
        }
    }
    Ok(true)
}

pub fn read_pwsh(text: &str, cmd: &str) -> Result<Script, String> {
    let chars: Vec<char> = text.chars().collect();
    let mut cur = Cur { c: &chars, i: 0, sh: Sh::Pwsh, strings: vec![] };
    let mut script = Script::default();
    #[derive(PartialEq, Clone, Copy)]
    enum Ctx {
        Top,
        Cmd(u32),
        Sub(u32),
        Shape(u32),
        Main,
        Other,
    }
    let mut ctx = Ctx::Top;
    let mut body = String::new();
    let mut t = Tables::default();
    let mut start_state = None;
    let mut shapes: BTreeMap<u32, Tables> = BTreeMap::new();
    let mut wrapper_shape: BTreeMap<u32, u32> = BTreeMap::new();
    while cur.i < chars.len() {
        if ctx == Ctx::Top {
            let line = cur.rest_of_line();
            cur.eat("\n");
            let l = line.trim_end();
            if let Some(rest) = l.strip_prefix(&format!("function _{cmd}_subword_shape_")) {
                if let Some(id) = rest.strip_suffix(" {") {
                    ctx = Ctx::Shape(id.parse().map_err(|_| format!("shape id in {l:?}"))?);
                    t = Tables::default();
                    continue;
                }
            }
            if let Some(rest) = l.strip_prefix(&format!("function _{cmd}_cmd_")) {
                if let Some(id) = rest.strip_suffix(" {") {
                    ctx = Ctx::Cmd(id.parse().map_err(|_| format!("command id in {l:?}"))?);
                    body.clear();
                    continue;
                }
            }
            if let Some(rest) = l.strip_prefix(&format!("function _{cmd}_subword_")) {
                if let Some(id) = rest.strip_suffix(" {") {
                    if let Ok(n) = id.parse::<u32>() {
                        ctx = Ctx::Sub(n);
                        t = Tables::default();
                        continue;
                    }
                }
            }
            if l.starts_with("function ") && l.ends_with(" {") {
                ctx = Ctx::Other;
                continue;
            }
            if let Some(rest) = l.strip_prefix("Register-ArgumentCompleter -Native -CommandName ") {
                let name = rest.split(' ').next().unwrap_or("").trim_matches('\'').to_string();
                script.registered_for = Some(name);
                ctx = Ctx::Main;
                t = Tables::default();
            }
            continue;
        }
        if chars[cur.i] == '}' && (cur.i + 1 >= chars.len() || chars[cur.i + 1] == '\n') {
            match ctx {
                Ctx::Cmd(id) => {
                    script.commands.insert(id, body.trim().to_string());
                }
                Ctx::Sub(id) => {
                    script.subs.insert(id, std::mem::take(&mut t));
                }
                Ctx::Shape(id) => {
                    shapes.insert(id, std::mem::take(&mut t));
                }
                Ctx::Main => {
                    script.main = std::mem::take(&mut t);
                    script.start_state = start_state;
                }
                _ => {}
            }
            ctx = Ctx::Top;
            cur.rest_of_line();
            cur.eat("\n");
            continue;
        }
        match ctx {
            Ctx::Cmd(_) => {
                let line = cur.rest_of_line();
                cur.eat("\n");
                body.push_str(&line);
                body.push('\n');
            }
            Ctx::Sub(id) | Ctx::Shape(id) => {
                let mut dummy = None;
                if !pwsh_statement(&mut cur, &mut t, &mut dummy)? {
                    let line = cur.rest_of_line();
                    if let Some(rest) = line.trim().strip_prefix(&format!("_{cmd}_subword_shape_")) {
                        let k: u32 = rest.split(' ').next().unwrap_or("").parse().map_err(|_| format!("shape call {line:?}"))?;
                        if matches!(ctx, Ctx::Sub(_)) {
                            wrapper_shape.insert(id, k);
                        }
                    }
                } else {
                    cur.rest_of_line();
                }
                cur.eat("\n");
            }
            Ctx::Main => {
                if !pwsh_statement(&mut cur, &mut t, &mut start_state)? {
                    cur.rest_of_line();
                } else {
                    cur.rest_of_line();
                }
                cur.eat("\n");
            }
            _ => {
                cur.rest_of_line();
                cur.eat("\n");
            }
        }
    }
    for (id, k) in wrapper_shape {
        let shape = shapes.get(&k).ok_or_else(|| format!("wrapper {id} calls shape {k}, which is not defined"))?.clone();
        let w = script.subs.get_mut(&id).ok_or("wrapper")?;
        let lits = std::mem::take(&mut w.literals);
        let descr = std::mem::take(&mut w.descr);
        *w = shape;
        w.literals = lits;
        w.descr = descr;
    }
    script.strings = cur.strings;
    Ok(script)
}

pub fn read(sh: Sh, text: &str, cmd: &str) -> Result<Script, String> {
    match sh {
        Sh::Bash => read_bash(text, cmd),
        Sh::Zsh => read_zsh(text, cmd),
        Sh::Fish => read_fish(text, cmd),
        Sh::Pwsh => read_pwsh(text, cmd),
    }
}

// ---------------------------------------------------------------------------------------------
// fish: within-word tables live in --global variables.  Explicit-state exploration of all call
// histories of the wrapper functions (with the resets the script performs at its call sites):
// after the last call the variables the matcher reads must be exactly those of a fresh call.
// ---------------------------------------------------------------------------------------------

#[derive(Clone, Debug)]
enum FishStmt {
    Set { name: String, index: Option<u32>, words: Vec<String> },
    Call(String),
}

fn fish_function_stmts(text: &str) -> Result<BTreeMap<String, Vec<FishStmt>>, String> {
    let chars: Vec<char> = text.chars().collect();
    let mut cur = Cur { c: &chars, i: 0, sh: Sh::Fish, strings: vec![] };
    let mut out: BTreeMap<String, Vec<FishStmt>> = BTreeMap::new();
    let mut current: Option<String> = None;
    while cur.i < chars.len() {
        if current.is_none() {
            let line = cur.rest_of_line();
            cur.eat("\n");
            if let Some(name) = line.strip_prefix("function ") {
                current = Some(name.trim().to_string());
                out.insert(name.trim().to_string(), vec![]);
            }
            continue;
        }
        if cur.eat("end\n") {
            current = None;
            continue;
        }
        let save = cur.i;
        cur.skip_blanks();
        if cur.eat("set ") {
            let global = cur.eat("--global ");
            let st = cur.i;
            while matches!(cur.peek(), Some(c) if c.is_ascii_alphanumeric() || c == '_') {
                cur.i += 1;
            }
            let name: String = cur.c[st..cur.i].iter().collect();
            let mut index = None;
            let mut ok = global && name.starts_with("subword_");
            if cur.peek() == Some('[') {
                cur.i += 1;
                match cur.number() {
                    Ok(n) => index = Some(n),
                    Err(_) => ok = false,
                }
                if ok && cur.expect("]").is_err() {
                    ok = false;
                }
            }
            if ok {
                if let Ok(words) = fish_words(&mut cur) {
                    if !words.iter().any(|w| w.starts_with('$') || w.starts_with('(')) {
                        out.get_mut(current.as_ref().unwrap()).unwrap().push(FishStmt::Set { name, index, words });
                    }
                }
            }
            let _ = save;
            cur.rest_of_line();
            cur.eat("\n");
            continue;
        }
        let line = cur.rest_of_line();
        cur.eat("\n");
        let l = line.trim();
        if l.starts_with('_') {
            let callee = l.split(' ').next().unwrap_or("").to_string();
            out.get_mut(current.as_ref().unwrap()).unwrap().push(FishStmt::Call(callee));
        }
    }
    Ok(out)
}

type Globals = BTreeMap<String, Vec<String>>;

fn fish_exec(fname: &str, funcs: &BTreeMap<String, Vec<FishStmt>>, g: &mut Globals, depth: usize) {
    if depth > 3 {
        return;
    }
    let Some(stmts) = funcs.get(fname) else { return };
    for s in stmts {
        match s {
            FishStmt::Set { name, index: None, words } => {
                g.insert(name.clone(), words.clone());
            }
            FishStmt::Set { name, index: Some(k), words } => {
                let v = g.entry(name.clone()).or_default();
                let k = *k as usize;
                while v.len() < k {
                    v.push(String::new());
                }
                if k >= 1 {
                    v[k - 1] = words.join(" ");
                }
            }
            FishStmt::Call(c) => {
                if c.contains("_subword_shape_") {
                    fish_exec(c, funcs, g, depth + 1);
                }
            }
        }
    }
}

/// the variables the shared matcher reads, given the loop bound it uses
fn fish_visible(g: &Globals) -> Globals {
    let maxl: usize = g.get("subword_max_fallback_level").and_then(|v| v.first()).and_then(|s| s.parse().ok()).unwrap_or(0);
    let mut out = Globals::new();
    for n in ["subword_literals", "subword_descrs", "subword_descr_literal_ids", "subword_descr_ids", "subword_literal_transitions_inputs", "subword_literal_transitions_tos", "subword_command_transitions", "subword_star_transitions_from", "subword_star_transitions_to", "subword_max_fallback_level"] {
        out.insert(n.to_string(), g.get(n).cloned().unwrap_or_default());
    }
    for l in 0..=maxl {
        for n in ["subword_literal_froms_level_", "subword_literal_inputs_level_", "subword_command_froms_level_", "subword_commands_level_"] {
            let k = format!("{n}{l}");
            out.insert(k.clone(), g.get(&k).cloned().unwrap_or_default());
        }
    }
    // trailing empty elements of indexed lists are not observable
    for v in out.values_mut() {
        while v.last().map(|s| s.is_empty()).unwrap_or(false) {
            v.pop();
        }
    }
    out
}

/// returns (states, transitions) explored, or a description of an observable leftover
pub fn fish_history_check(text: &str, cmd: &str, max_len: usize) -> Result<(u64, u64), String> {
    let funcs = fish_function_stmts(text)?;
    let prefix = format!("_{cmd}_subword_");
    let ids: Vec<String> = funcs.keys().filter(|k| k.starts_with(&prefix) && k[prefix.len()..].chars().all(|c| c.is_ascii_digit()) && k.len() > prefix.len()).cloned().collect();
    if ids.len() < 2 {
        return Ok((0, 0));
    }
    // resets performed by the script right before each kind of call site
    let main_text: String = {
        let start = text.find(&format!("function _{cmd}\n")).ok_or("no main function")?;
        text[start..].to_string()
    };
    let mut sites: Vec<Vec<String>> = vec![];
    let mut pending: Vec<String> = vec![];
    for line in main_text.lines() {
        let l = line.trim();
        if let Some(rest) = l.strip_prefix("set --global subword_") {
            if !rest.contains(' ') {
                pending.push(format!("subword_{rest}"));
            }
        } else if l.contains(&format!("_{cmd}_subword_$")) {
            sites.push(std::mem::take(&mut pending));
        }
    }
    if sites.is_empty() {
        return Err("no call site of a within-word wrapper found in the main function".into());
    }
    let call = |g: &mut Globals, site: usize, id: &str| {
        for r in &sites[site] {
            g.insert(r.clone(), vec![]);
        }
        fish_exec(id, &funcs, g, 0);
    };
    // fresh results
    let mut fresh: BTreeMap<(usize, String), Globals> = BTreeMap::new();
    for s in 0..sites.len() {
        for id in &ids {
            let mut g = Globals::new();
            call(&mut g, s, id);
            fresh.insert((s, id.clone()), fish_visible(&g));
        }
    }
    // BFS over histories, state = canonical variable map
    let mut seen: std::collections::BTreeSet<String> = std::collections::BTreeSet::new();
    let mut q: std::collections::VecDeque<(Globals, usize, Vec<String>)> = std::collections::VecDeque::new();
    q.push_back((Globals::new(), 0, vec![]));
    let mut states = 0u64;
    let mut transitions = 0u64;
    while let Some((g, len, hist)) = q.pop_front() {
        states += 1;
        if len >= max_len {
            continue;
        }
        for s in 0..sites.len() {
            for id in &ids {
                transitions += 1;
                let mut g2 = g.clone();
                call(&mut g2, s, id);
                let vis = fish_visible(&g2);
                let want = &fresh[&(s, id.clone())];
                if &vis != want {
                    let diff: Vec<String> = vis.iter().filter(|(k, v)| want.get(*k) != Some(*v)).map(|(k, v)| format!("{k}={v:?} (fresh: {:?})", want.get(k))).collect();
                    let mut h = hist.clone();
                    h.push(format!("{id}@site{s}"));
                    return Err(format!("after the call history [{}] the within-word matcher sees leftovers of an earlier call: {}", h.join(", "), diff.join("; ")));
                }
                let key = format!("{g2:?}");
                if seen.insert(key) {
                    let mut h = hist.clone();
                    h.push(format!("{id}@site{s}"));
                    q.push_back((g2, len + 1, h));
                }
            }
        }
    }
    Ok((states, transitions))
}
