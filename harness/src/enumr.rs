//! Exhaustive enumeration of grammar trees up to a node bound over a small vocabulary.
//!
//! `T(n, ctx)` = all trees with exactly `n` nodes.  Trees are in the parser's normal form:
//! no `Word` below a `Word` (complgen flattens those into sequences), no `Descr` directly over
//! a bare literal (that *is* the literal with its own description), n-ary operators have
//! arity 2..=max_arity.  Nested Seq/Alt/Fb are kept: they are distinct parse trees reachable
//! with parentheses.

use crate::ast::E;
use std::collections::HashMap;
use std::sync::Arc;

#[derive(Clone, Debug)]
pub struct Vocab {
    /// leaves usable outside words
    pub leaves: Vec<E>,
    /// leaves usable inside words
    pub word_leaves: Vec<E>,
    pub descrs: Vec<String>,
    pub seq: bool,
    pub alt: bool,
    pub fb: bool,
    pub opt: bool,
    pub many: bool,
    pub word: bool,
    pub max_arity: usize,
}

impl Vocab {
    pub fn basic(leaves: Vec<E>) -> Self {
        Vocab {
            word_leaves: leaves.clone(),
            leaves,
            descrs: vec![],
            seq: true,
            alt: true,
            fb: true,
            opt: true,
            many: true,
            word: true,
            max_arity: 3,
        }
    }
}

pub struct Enumerator {
    pub vocab: Vocab,
    memo_max: usize,
    memo: HashMap<(usize, bool), Arc<Vec<E>>>,
    counts: HashMap<(usize, bool), u64>,
}

fn compositions(total: usize, parts: usize) -> Vec<Vec<usize>> {
    // ordered compositions of `total` into `parts` positive integers
    let mut out = vec![];
    fn rec(total: usize, parts: usize, cur: &mut Vec<usize>, out: &mut Vec<Vec<usize>>) {
        if parts == 1 {
            if total >= 1 {
                cur.push(total);
                out.push(cur.clone());
                cur.pop();
            }
            return;
        }
        if total < parts {
            return;
        }
        for first in 1..=(total - (parts - 1)) {
            cur.push(first);
            rec(total - first, parts - 1, cur, out);
            cur.pop();
        }
    }
    rec(total, parts, &mut vec![], &mut out);
    out
}

impl Enumerator {
    pub fn new(vocab: Vocab, memo_max: usize) -> Self {
        let mut e = Enumerator { vocab, memo_max, memo: HashMap::new(), counts: HashMap::new() };
        for n in 1..=memo_max {
            for w in [true, false] {
                let mut v = vec![];
                e.gen_level(n, w, &mut |t| v.push(t.clone()));
                e.counts.insert((n, w), v.len() as u64);
                e.memo.insert((n, w), Arc::new(v));
            }
        }
        e
    }

    pub fn count(&mut self, n: usize, in_word: bool) -> u64 {
        if n == 0 {
            return 0;
        }
        if let Some(c) = self.counts.get(&(n, in_word)) {
            return *c;
        }
        let v = self.vocab.clone();
        let mut total: u64 = 0;
        if n == 1 {
            total = if in_word { v.word_leaves.len() } else { v.leaves.len() } as u64;
        } else {
            let sub = self.count(n - 1, in_word);
            if v.opt {
                total += sub;
            }
            if v.many {
                total += sub;
            }
            // Descr over anything but a bare literal
            let bare = if n - 1 == 1 {
                let ls = if in_word { &v.word_leaves } else { &v.leaves };
                ls.iter().filter(|l| matches!(l, E::Lit(_, None))).count() as u64
            } else {
                0
            };
            total += (sub - bare) * v.descrs.len() as u64;
            for arity in 2..=v.max_arity {
                for comp in compositions(n - 1, arity) {
                    let mut p: u64 = 1;
                    for s in &comp {
                        p = p.saturating_mul(self.count(*s, in_word));
                    }
                    let nops = [v.seq, v.alt, v.fb].iter().filter(|b| **b).count() as u64;
                    total += p * nops;
                    if v.word && !in_word {
                        let mut pw: u64 = 1;
                        for s in &comp {
                            pw = pw.saturating_mul(self.count(*s, true));
                        }
                        total += pw;
                    }
                }
            }
        }
        self.counts.insert((n, in_word), total);
        total
    }

    /// Call `f` on every tree with exactly `n` nodes.
    pub fn for_each(&self, n: usize, in_word: bool, f: &mut dyn FnMut(&E)) {
        if n == 0 {
            return;
        }
        if n <= self.memo_max {
            if let Some(v) = self.memo.get(&(n, in_word)) {
                for t in v.iter() {
                    f(t);
                }
                return;
            }
        }
        self.gen_level(n, in_word, f);
    }

    fn gen_level(&self, n: usize, in_word: bool, f: &mut dyn FnMut(&E)) {
        let v = &self.vocab;
        if n == 1 {
            for l in if in_word { &v.word_leaves } else { &v.leaves } {
                f(l);
            }
            return;
        }
        if v.opt {
            self.for_each(n - 1, in_word, &mut |c| f(&E::Opt(Box::new(c.clone()))));
        }
        if v.many {
            self.for_each(n - 1, in_word, &mut |c| f(&E::Many(Box::new(c.clone()))));
        }
        for d in &v.descrs {
            self.for_each(n - 1, in_word, &mut |c| {
                if !matches!(c, E::Lit(_, None)) {
                    f(&E::Descr(Box::new(c.clone()), d.clone()))
                }
            });
        }
        for arity in 2..=v.max_arity {
            for comp in compositions(n - 1, arity) {
                let mut acc: Vec<E> = Vec::with_capacity(arity);
                if v.seq || v.alt || v.fb {
                    self.product(&comp, in_word, &mut acc, &mut |cs| {
                        if v.seq {
                            f(&E::Seq(cs.to_vec()));
                        }
                        if v.alt {
                            f(&E::Alt(cs.to_vec()));
                        }
                        if v.fb {
                            f(&E::Fb(cs.to_vec()));
                        }
                    });
                }
                if v.word && !in_word {
                    self.product(&comp, true, &mut acc, &mut |cs| f(&E::Word(cs.to_vec())));
                }
            }
        }
    }

    fn product(&self, sizes: &[usize], in_word: bool, acc: &mut Vec<E>, f: &mut dyn FnMut(&[E])) {
        if sizes.is_empty() {
            f(acc);
            return;
        }
        // collect this level's trees when memoised (cheap), else stream
        if sizes[0] <= self.memo_max {
            let v = self.memo.get(&(sizes[0], in_word)).cloned();
            if let Some(v) = v {
                for t in v.iter() {
                    acc.push(t.clone());
                    self.product(&sizes[1..], in_word, acc, f);
                    acc.pop();
                }
                return;
            }
        }
        let mut tmp: Vec<E> = vec![];
        self.gen_level(sizes[0], in_word, &mut |t| tmp.push(t.clone()));
        for t in tmp {
            acc.push(t);
            self.product(&sizes[1..], in_word, acc, f);
            acc.pop();
        }
    }

    /// All trees with at most `k` nodes (top-level context).
    pub fn for_each_upto(&self, k: usize, f: &mut dyn FnMut(&E)) {
        for n in 1..=k {
            self.for_each(n, false, f);
        }
    }
}

#[cfg(test)]
mod tests {
    use super::*;
    #[test]
    fn count_matches_enumeration() {
        let v = Vocab {
            descrs: vec!["d".into()],
            ..Vocab::basic(vec![E::lit("a"), E::litd("b", "x"), E::r("X")])
        };
        let mut e = Enumerator::new(v, 3);
        for n in 1..=5 {
            for w in [false, true] {
                let mut c = 0u64;
                e.for_each(n, w, &mut |_| c += 1);
                assert_eq!(c, e.count(n, w), "n={n} w={w}");
            }
        }
    }
}
