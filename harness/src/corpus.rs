//! Fixed corpus of larger grammars (enumerated, not sampled): parsed from text with complgen's
//! own parser is NOT what we want for the reference, so they are given as harness ASTs built by
//! the harness's own mini-reader of .usage text (ast::from_grammar is only used after C05 has
//! validated the round trip for that text).

use crate::ast::G;

pub const TEXTS: &[(&str, &str)] = &[
    ("hello", "hello --color=(always | never | auto);\n"),
    (
        "strace",
        "strace -e <EXPR>;\n<EXPR> = [<qualifier>=][!]<value>[,<value>]...;\n<qualifier> = trace | read | write | fault;\n<value> = %file | file | all;\n",
    ),
    (
        "mygit-abridged",
        "mygit (<SUBCOMMAND> || <OPTION>);\n<SUBCOMMAND> = fetch | add | commit | push;\n<OPTION> = --help | --version;\n",
    ),
    (
        "grep-descr",
        "grep --extended-regexp \"PATTERNS are extended regular expressions\" | --exclude  \"skip files that match GLOB\";\n",
    ),
    ("user-spec", "cmd <USER>;\n<USER@bash> = {{{ compgen -A user | sort | uniq }}};\n<USER@fish> = {{{ __fish_complete_users }}};\n<USER@zsh> = {{{ _users }}};\n<USER@pwsh> = {{{ Get-LocalUser }}};\n"),
    ("many", "cmd (a | b) ... [c];\n"),
    ("opts", "cmd [--help] [--verbose | -v]... <PATH> [<DIRECTORY>];\n"),
    ("subword-cmd", "cmd --user={{{ echo u1; echo u2 }}} | --file=<PATH>;\n"),
    ("nested-fb", "cmd ((a || b) c || d (e || f));\n"),
    ("descr-dist", "cargo (b | build) \"Compile the current package\" | (t test) \"Run tests\";\n"),
];

pub fn grammars() -> Vec<G> {
    let mut out = vec![];
    for (_, t) in TEXTS {
        if let Ok(g) = complgen::parse::Grammar::parse(t) {
            out.push(crate::ast::from_grammar(&g));
        }
    }
    for (_, t) in examples() {
        if let Ok(g) = complgen::parse::Grammar::parse(&t) {
            out.push(crate::ast::from_grammar(&g));
        }
    }
    out
}

pub fn examples() -> Vec<(String, String)> {
    let mut out = vec![];
    if let Ok(rd) = std::fs::read_dir("/repo/examples") {
        let mut paths: Vec<_> = rd.filter_map(|e| e.ok()).map(|e| e.path()).collect();
        paths.sort();
        for p in paths {
            if p.extension().map(|e| e == "usage").unwrap_or(false) {
                if let Ok(t) = std::fs::read_to_string(&p) {
                    out.push((p.file_name().unwrap().to_string_lossy().to_string(), t));
                }
            }
        }
    }
    out
}
