mod ast;
mod bashrun;
mod refrun;
mod traces;
mod binrun;
mod lex;
mod auto;
mod corpus;
mod dot;
mod enumr;
mod fam;
mod json;
mod par;
mod pipe;
mod r8;
mod props;
mod refsem;
mod report;
mod shells;
mod view;

use report::Tier;

fn main() {
    let args: Vec<String> = std::env::args().collect();
    if args.len() < 3 {
        eprintln!("usage: cgmc <ID> <quick|thorough>");
        std::process::exit(2);
    }
    pipe::install_quiet_panic_hook();
    if args[1] == "c10-worker" {
        props::c10::worker_main(&args[2..]);
        return;
    }
    if args[1] == "c06-worker" {
        props::c06::worker_main(&args[2], &args[3]);
        return;
    }
    if args[1] == "defs-par" {
        props::replay_one::run_defs_par();
        return;
    }
    if args[1] == "defs" {
        props::replay_one::run_defs();
        return;
    }
    if args[1] == "one" {
        props::replay_one::run(&args[2]);
        return;
    }
    if args[1] == "debug-corpus" {
        debug_time_corpus();
        return;
    }
    let tier = match args[2].as_str() {
        "quick" => Tier::Quick,
        "thorough" => Tier::Thorough,
        _ => {
            eprintln!("tier must be quick or thorough");
            std::process::exit(2);
        }
    };
    let rep = match args[1].as_str() {
        "C01" => props::c01::run(tier),
        "C02" => props::c02::run(tier),
        "C03" => props::c03::run(tier),
        "C04" => props::c04::run(tier),
        "C05" => props::c05::run(tier),
        "C06" => props::c06::run(tier),
        "C07" => props::c07::run(tier),
        "C08" => props::c08::run(tier),
        "C09" => props::c09::run(tier),
        "C10" => props::c10::run(tier),
        "C11" => props::c11::run(tier),
        "C12" => props::c12::run(tier),
        "C13" => props::c13::run(tier),
        "C14" => props::c14::run(tier),
        "C15" => props::c15::run(tier),
        "C16" => props::c16::run(tier),
        "C17" => props::c17::run(tier),
        other => {
            eprintln!("unknown check {other}");
            std::process::exit(2);
        }
    };
    std::process::exit(rep.finish());
}

#[allow(dead_code)]
pub fn debug_time_corpus() {
    for g in corpus::grammars() {
        let t = std::time::Instant::now();
        let mut acc = props::c02::Acc::default();
        props::c02::work(&mut acc, g.clone(), &[pipe::Shell::Bash]);
        let text = ast::print_grammar(&g);
        eprintln!("{:.3}s states={} {}", t.elapsed().as_secs_f64(), acc.states, &text[..text.len().min(50)].replace('\n', " "));
    }
}
