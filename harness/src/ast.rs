//! Grammar AST of the harness, its printer (minimal parentheses, explicit layout gaps)
//! and the conversion from complgen's parse arena back into this AST.
//!
//! Nothing here calls into complgen's pipeline except `from_arena`, which only *reads*
//! the public parse tree.

use complgen::parse::{Expr, ExprId, Grammar, Statement};

#[derive(Clone, Debug, PartialEq, Eq, Hash, PartialOrd, Ord)]
pub enum E {
    /// literal with optional own description (`foo "descr"`)
    Lit(String, Option<String>),
    /// `<NAME>`
    Ref(String),
    /// `{{{ text }}}`
    Cmd(String),
    Seq(Vec<E>),
    Alt(Vec<E>),
    Fb(Vec<E>),
    Opt(Box<E>),
    Many(Box<E>),
    /// within-word juxtaposition of >= 2 factors
    Word(Vec<E>),
    /// `E "descr"` where E is not a bare literal
    Descr(Box<E>, String),
}

#[derive(Clone, Debug, PartialEq, Eq, Hash)]
pub enum Stmt {
    Call { name: String, expr: E },
    Def { name: String, shell: Option<String>, expr: E },
}

#[derive(Clone, Debug, PartialEq, Eq, Hash, Default)]
pub struct G {
    pub stmts: Vec<Stmt>,
}

impl E {
    pub fn lit(s: &str) -> E {
        E::Lit(s.to_string(), None)
    }
    pub fn litd(s: &str, d: &str) -> E {
        E::Lit(s.to_string(), Some(d.to_string()))
    }
    pub fn r(s: &str) -> E {
        E::Ref(s.to_string())
    }
    pub fn cmd(s: &str) -> E {
        E::Cmd(s.to_string())
    }
    pub fn size(&self) -> usize {
        match self {
            E::Lit(..) | E::Ref(_) | E::Cmd(_) => 1,
            E::Seq(c) | E::Alt(c) | E::Fb(c) | E::Word(c) => 1 + c.iter().map(|x| x.size()).sum::<usize>(),
            E::Opt(c) | E::Many(c) | E::Descr(c, _) => 1 + c.size(),
        }
    }
    pub fn children(&self) -> Vec<&E> {
        match self {
            E::Lit(..) | E::Ref(_) | E::Cmd(_) => vec![],
            E::Seq(c) | E::Alt(c) | E::Fb(c) | E::Word(c) => c.iter().collect(),
            E::Opt(c) | E::Many(c) | E::Descr(c, _) => vec![c],
        }
    }
    pub fn visit<F: FnMut(&E)>(&self, f: &mut F) {
        f(self);
        for c in self.children() {
            c.visit(f);
        }
    }
    pub fn any<F: Fn(&E) -> bool + Copy>(&self, f: F) -> bool {
        if f(self) {
            return true;
        }
        self.children().into_iter().any(|c| c.any(f))
    }
    /// Replace every `||` by `|` (C09).
    /// the same expression without any description
    pub fn without_descriptions(&self) -> E {
        match self {
            E::Lit(t, _) => E::Lit(t.clone(), None),
            E::Ref(_) | E::Cmd(_) => self.clone(),
            E::Seq(c) => E::Seq(c.iter().map(|x| x.without_descriptions()).collect()),
            E::Alt(c) => E::Alt(c.iter().map(|x| x.without_descriptions()).collect()),
            E::Fb(c) => E::Fb(c.iter().map(|x| x.without_descriptions()).collect()),
            E::Word(c) => E::Word(c.iter().map(|x| x.without_descriptions()).collect()),
            E::Opt(c) => E::Opt(Box::new(c.without_descriptions())),
            E::Many(c) => E::Many(Box::new(c.without_descriptions())),
            E::Descr(c, _) => c.without_descriptions(),
        }
    }

    pub fn fb_to_alt(&self) -> E {
        match self {
            E::Lit(..) | E::Ref(_) | E::Cmd(_) => self.clone(),
            E::Seq(c) => E::Seq(c.iter().map(|x| x.fb_to_alt()).collect()),
            E::Alt(c) => E::Alt(c.iter().map(|x| x.fb_to_alt()).collect()),
            E::Fb(c) => E::Alt(c.iter().map(|x| x.fb_to_alt()).collect()),
            E::Word(c) => E::Word(c.iter().map(|x| x.fb_to_alt()).collect()),
            E::Opt(c) => E::Opt(Box::new(c.fb_to_alt())),
            E::Many(c) => E::Many(Box::new(c.fb_to_alt())),
            E::Descr(c, d) => E::Descr(Box::new(c.fb_to_alt()), d.clone()),
        }
    }
}

// ---------------------------------------------------------------------------------------
// Printer
// ---------------------------------------------------------------------------------------

/// What may stand between the previous token and this one.
#[derive(Clone, Copy, Debug, PartialEq, Eq)]
pub enum Glue {
    /// nothing may be inserted (inside a word, inside `<...>`)
    Tight,
    /// blanks are optional, canonical layout prints nothing
    Opt0,
    /// blanks are optional, canonical layout prints one space
    Opt1,
    /// at least one blank is required
    Req,
    /// statement boundary (after `;`): canonical newline, blanks optional
    Stmt,
}

#[derive(Clone, Debug)]
pub struct Tok {
    pub glue: Glue,
    pub text: String,
    /// index of the E node / statement this token starts (for position bookkeeping), if any
    pub tag: Option<usize>,
}

pub fn is_regular_terminal_char(c: char) -> bool {
    c.is_ascii_alphanumeric()
        || matches!(
            c,
            '!' | '#' | '$' | '%' | '&' | '\'' | '*' | '+' | ',' | '-' | '/' | ':' | '=' | '?' | '@' | '^' | '_' | '`' | '~'
        )
}

pub const ESCAPABLE: [char; 13] = ['(', ')', '[', ']', '<', '>', '|', ';', '"', '{', '}', '\\', '.'];

/// Can this text be written as a terminal at all?
pub fn is_writable_literal(s: &str) -> bool {
    !s.is_empty() && s.chars().all(|c| is_regular_terminal_char(c) || ESCAPABLE.contains(&c))
}

#[derive(Clone, Copy, Debug, PartialEq, Eq)]
pub enum DotStyle {
    /// every '.' is written `\.`
    Escaped,
    /// runs of one or two dots are written bare, longer runs escaped
    BareWhenLegal,
}

pub fn escape_literal(s: &str, dots: DotStyle) -> String {
    let chars: Vec<char> = s.chars().collect();
    let mut out = String::new();
    let mut i = 0;
    while i < chars.len() {
        let c = chars[i];
        if c == '.' {
            let mut j = i;
            while j < chars.len() && chars[j] == '.' {
                j += 1;
            }
            let run = j - i;
            if dots == DotStyle::BareWhenLegal && run < 3 {
                for _ in 0..run {
                    out.push('.');
                }
            } else {
                for _ in 0..run {
                    out.push_str("\\.");
                }
            }
            i = j;
            continue;
        }
        if is_regular_terminal_char(c) {
            out.push(c);
        } else {
            out.push('\\');
            out.push(c);
        }
        i += 1;
    }
    out
}

pub fn escape_descr(s: &str) -> String {
    let mut out = String::from("\"");
    for c in s.chars() {
        match c {
            '"' => out.push_str("\\\""),
            '\\' => out.push_str("\\\\"),
            c => out.push(c),
        }
    }
    out.push('"');
    out
}

/// precedence levels, loosest first
fn level(e: &E) -> u8 {
    match e {
        E::Fb(_) => 0,
        E::Alt(_) => 1,
        E::Seq(_) => 2,
        E::Descr(..) => 3,
        E::Word(_) => 4,
        E::Many(_) => 5,
        E::Lit(..) | E::Ref(_) | E::Cmd(_) | E::Opt(_) => 6,
    }
}

pub struct Printer {
    pub toks: Vec<Tok>,
    pub dots: DotStyle,
    /// extra parentheses around this node id (preorder index) when set (C14)
    pub extra_parens: Option<usize>,
    /// with `extra_parens` on a described literal: parenthesise the literal only, `(lit) "d"`
    pub parens_inside_description: bool,
    counter: usize,
}

impl Printer {
    pub fn new(dots: DotStyle) -> Self {
        Printer { toks: vec![], dots, extra_parens: None, parens_inside_description: false, counter: 0 }
    }

    fn push(&mut self, glue: Glue, text: &str, tag: Option<usize>) {
        self.toks.push(Tok { glue, text: text.to_string(), tag });
    }

    /// Print `e` in a position that requires precedence >= `min`; `glue` is what precedes
    /// its first token.
    pub fn expr(&mut self, e: &E, min: u8, glue: Glue) {
        let my_id = self.counter;
        self.counter += 1;
        let extra = self.extra_parens == Some(my_id);
        if extra && self.parens_inside_description {
            if let E::Lit(t, Some(d)) = e {
                // `(lit) "descr"`: a description after a group, printed where a factor is expected
                let need_outer = min > 3;
                if need_outer {
                    self.push(glue, "(", Some(my_id));
                }
                self.push(if need_outer { Glue::Opt0 } else { glue }, "(", Some(my_id));
                self.push(Glue::Opt0, &escape_literal(t, self.dots), None);
                self.push(Glue::Opt0, ")", None);
                self.push(Glue::Opt1, &escape_descr(d), None);
                if need_outer {
                    self.push(Glue::Opt0, ")", None);
                }
                return;
            }
        }
        if level(e) < min || extra {
            self.push(glue, "(", Some(my_id));
            self.expr_inner(e, Glue::Opt0, my_id);
            self.push(Glue::Opt0, ")", None);
        } else {
            self.expr_inner(e, glue, my_id);
        }
    }

    fn expr_inner(&mut self, e: &E, glue: Glue, my_id: usize) {
        match e {
            E::Lit(t, d) => {
                self.push(glue, &escape_literal(t, self.dots), Some(my_id));
                if let Some(d) = d {
                    self.push(Glue::Opt1, &escape_descr(d), None);
                }
            }
            E::Ref(n) => self.push(glue, &format!("<{n}>"), Some(my_id)),
            E::Cmd(c) => self.push(glue, &format!("{{{{{{ {c} }}}}}}"), Some(my_id)),
            E::Opt(c) => {
                self.push(glue, "[", Some(my_id));
                self.expr(c, 0, Glue::Opt0);
                self.push(Glue::Opt0, "]", None);
            }
            E::Many(c) => {
                let before = self.toks.len();
                self.expr(c, 6, glue);
                if self.toks.len() > before {
                    // tag the first token of the child with this node too? keep child's tag
                }
                let ends_with_dot = self.toks.last().map(|t| t.text.ends_with('.')).unwrap_or(false);
                // `a. ...`: a blank is needed or the lexer would see four dots
                self.push(if ends_with_dot { Glue::Req } else { Glue::Opt0 }, "...", None);
            }
            E::Descr(c, d) => {
                // `x=a "d"` would attach "d" to the literal `a`: a word ending in a bare
                // literal needs parentheses before a description
                let absorbs = matches!(&**c, E::Word(cs) if matches!(cs.last(), Some(E::Lit(_, None))));
                self.expr(c, if absorbs { 7 } else { 4 }, glue);
                self.push(Glue::Opt1, &escape_descr(d), None);
            }
            E::Word(cs) => {
                let mut prev_bare_lit = false;
                for (i, c) in cs.iter().enumerate() {
                    let g = if i == 0 { glue } else { Glue::Tight };
                    // two adjacent bare terminals would lex as one: parenthesise the later one
                    let starts_terminal = matches!(first_leaf(c), Some(E::Lit(..)));
                    if prev_bare_lit && starts_terminal {
                        let id = self.counter;
                        self.push(g, "(", Some(id));
                        self.expr(c, 0, Glue::Opt0);
                        self.push(Glue::Opt0, ")", None);
                        prev_bare_lit = false;
                    } else {
                        let before = self.toks.len();
                        self.expr(c, 5, g);
                        let parenthesised = self.toks[before].text == "(";
                        prev_bare_lit = matches!(c, E::Lit(_, None)) && !parenthesised;
                    }
                }
            }
            E::Seq(cs) => {
                for (i, c) in cs.iter().enumerate() {
                    self.expr(c, 3, if i == 0 { glue } else { Glue::Req });
                }
            }
            E::Alt(cs) => {
                for (i, c) in cs.iter().enumerate() {
                    if i > 0 {
                        self.push(Glue::Opt1, "|", None);
                    }
                    self.expr(c, 2, if i == 0 { glue } else { Glue::Opt1 });
                }
            }
            E::Fb(cs) => {
                for (i, c) in cs.iter().enumerate() {
                    if i > 0 {
                        self.push(Glue::Opt1, "||", None);
                    }
                    self.expr(c, 1, if i == 0 { glue } else { Glue::Opt1 });
                }
            }
        }
    }

    pub fn stmt(&mut self, s: &Stmt, idx: usize, glue: Glue, assign: &str, semicolon: bool) {
        self.counter = 0;
        match s {
            Stmt::Call { name, expr } => {
                self.push(glue, &escape_literal(name, self.dots), Some(1_000_000 + idx));
                self.expr(expr, 0, Glue::Req);
            }
            Stmt::Def { name, shell, expr } => {
                let lhs = match shell {
                    Some(sh) => format!("<{name}@{sh}>"),
                    None => format!("<{name}>"),
                };
                self.push(glue, &lhs, Some(1_000_000 + idx));
                self.push(Glue::Opt1, assign, None);
                self.expr(expr, 0, Glue::Opt1);
            }
        }
        if semicolon {
            self.push(Glue::Opt0, ";", None);
        }
    }
}

fn first_leaf(e: &E) -> Option<&E> {
    match e {
        E::Lit(..) | E::Ref(_) | E::Cmd(_) => Some(e),
        E::Many(c) => first_leaf(c),
        _ => None,
    }
}

pub fn canonical_gap(g: Glue, first: bool) -> &'static str {
    if first {
        return "";
    }
    match g {
        Glue::Tight | Glue::Opt0 => "",
        Glue::Opt1 | Glue::Req => " ",
        Glue::Stmt => "\n",
    }
}

pub fn render_canonical(toks: &[Tok]) -> String {
    let mut out = String::new();
    for (i, t) in toks.iter().enumerate() {
        out.push_str(canonical_gap(t.glue, i == 0));
        out.push_str(&t.text);
    }
    out
}

/// Render with a caller-chosen separator for gap `i` (the gap before token `i`).
pub fn render_with<F: Fn(usize, Glue) -> Option<String>>(toks: &[Tok], f: F) -> String {
    let mut out = String::new();
    for (i, t) in toks.iter().enumerate() {
        match f(i, t.glue) {
            Some(s) => out.push_str(&s),
            None => out.push_str(canonical_gap(t.glue, i == 0)),
        }
        out.push_str(&t.text);
    }
    out
}

pub fn grammar_tokens(g: &G, dots: DotStyle) -> Vec<Tok> {
    let mut p = Printer::new(dots);
    for (i, s) in g.stmts.iter().enumerate() {
        p.stmt(s, i, if i == 0 { Glue::Opt0 } else { Glue::Stmt }, "=", true);
    }
    p.toks
}

pub fn print_grammar(g: &G) -> String {
    let mut s = render_canonical(&grammar_tokens(g, DotStyle::Escaped));
    s.push('\n');
    s
}

pub fn print_expr(e: &E) -> String {
    let mut p = Printer::new(DotStyle::Escaped);
    p.expr(e, 0, Glue::Opt0);
    render_canonical(&p.toks)
}

pub fn g1(cmd: &str, e: E) -> G {
    G { stmts: vec![Stmt::Call { name: cmd.to_string(), expr: e }] }
}

// ---------------------------------------------------------------------------------------
// complgen parse tree -> harness AST (reads public fields only)
// ---------------------------------------------------------------------------------------

pub fn from_arena(arena: &[Expr], id: ExprId) -> E {
    match &arena[id.0] {
        Expr::Terminal { term, descr, .. } => E::Lit(term.to_string(), descr.map(|d| d.to_string())),
        Expr::NontermRef { nonterm, .. } => E::Ref(nonterm.to_string()),
        Expr::Command { cmd, .. } => E::Cmd(cmd.to_string()),
        Expr::Sequence { children, .. } => E::Seq(children.iter().map(|c| from_arena(arena, *c)).collect()),
        Expr::Alternative { children, .. } => E::Alt(children.iter().map(|c| from_arena(arena, *c)).collect()),
        Expr::Fallback { children, .. } => E::Fb(children.iter().map(|c| from_arena(arena, *c)).collect()),
        Expr::Optional { child, .. } => E::Opt(Box::new(from_arena(arena, *child))),
        Expr::Many1 { child, .. } => E::Many(Box::new(from_arena(arena, *child))),
        Expr::DistributiveDescription { child, descr, .. } => {
            E::Descr(Box::new(from_arena(arena, *child)), descr.to_string())
        }
        Expr::Subword { root_id, .. } => match &arena[root_id.0] {
            Expr::Sequence { children, .. } => E::Word(children.iter().map(|c| from_arena(arena, *c)).collect()),
            _ => E::Word(vec![from_arena(arena, *root_id)]),
        },
    }
}

pub fn from_grammar(g: &Grammar) -> G {
    let mut stmts = vec![];
    for s in &g.statements {
        match s {
            Statement::CallVariant { name, expr, .. } => {
                stmts.push(Stmt::Call { name: name.to_string(), expr: from_arena(&g.arena, *expr) })
            }
            Statement::NonterminalDefinition(d) => stmts.push(Stmt::Def {
                name: d.verif_lhs_name().to_string(),
                shell: d.verif_shell().map(|(s, _)| s.to_string()),
                expr: from_arena(&g.arena, d.verif_rhs()),
            }),
        }
    }
    G { stmts }
}
