//! Strict parser for the subset of the Graphviz DOT language a `digraph` dump can use.
//! Lexing follows graphviz's scan.l: identifiers, numerals, double-quoted strings in which `\"`
//! is an escaped quote, `\\` stays a pair and a backslash-newline is dropped.  Anything else
//! is a syntax error (there is no `dot` binary in this sandbox).

use std::collections::BTreeMap;

#[derive(Clone, Debug, PartialEq)]
enum Tok {
    Id(String),
    /// quoted string, decoded (only `\"` -> `"`; other escapes such as \n, \\ kept for the
    /// label-level interpretation)
    Str(String),
    LBrace,
    RBrace,
    LBracket,
    RBracket,
    Semi,
    Comma,
    Eq,
    Arrow,
}

fn lex(text: &str) -> Result<Vec<Tok>, String> {
    let c: Vec<char> = text.chars().collect();
    let mut i = 0;
    let mut out = vec![];
    let mut line = 1;
    while i < c.len() {
        let ch = c[i];
        match ch {
            '\n' => {
                line += 1;
                i += 1;
            }
            ' ' | '\t' | '\r' => i += 1,
            '{' => {
                out.push(Tok::LBrace);
                i += 1
            }
            '}' => {
                out.push(Tok::RBrace);
                i += 1
            }
            '[' => {
                out.push(Tok::LBracket);
                i += 1
            }
            ']' => {
                out.push(Tok::RBracket);
                i += 1
            }
            ';' => {
                out.push(Tok::Semi);
                i += 1
            }
            ',' => {
                out.push(Tok::Comma);
                i += 1
            }
            '=' => {
                out.push(Tok::Eq);
                i += 1
            }
            '-' if c.get(i + 1) == Some(&'>') => {
                out.push(Tok::Arrow);
                i += 2
            }
            '"' => {
                i += 1;
                let mut s = String::new();
                loop {
                    let Some(&d) = c.get(i) else { return Err(format!("line {line}: unterminated string")) };
                    if d == '"' {
                        i += 1;
                        break;
                    }
                    if d == '\\' {
                        match c.get(i + 1) {
                            Some('"') => {
                                s.push('"');
                                i += 2;
                                continue;
                            }
                            Some('\\') => {
                                s.push_str("\\\\");
                                i += 2;
                                continue;
                            }
                            Some('\n') => {
                                i += 2;
                                line += 1;
                                continue;
                            }
                            _ => {}
                        }
                    }
                    if d == '\n' {
                        line += 1;
                    }
                    s.push(d);
                    i += 1;
                }
                out.push(Tok::Str(s));
            }
            d if d.is_ascii_alphabetic() || d == '_' || (d as u32) >= 0x80 => {
                let st = i;
                while i < c.len() && (c[i].is_ascii_alphanumeric() || c[i] == '_' || (c[i] as u32) >= 0x80) {
                    i += 1;
                }
                out.push(Tok::Id(c[st..i].iter().collect()));
            }
            d if d.is_ascii_digit() || d == '.' || d == '-' => {
                let st = i;
                i += 1;
                while i < c.len() && (c[i].is_ascii_digit() || c[i] == '.') {
                    i += 1;
                }
                out.push(Tok::Id(c[st..i].iter().collect()));
            }
            other => return Err(format!("line {line}: unexpected character {other:?}")),
        }
    }
    Ok(out)
}

#[derive(Clone, Debug, Default)]
pub struct Node {
    pub attrs: BTreeMap<String, String>,
    /// the `node [shape=...]` default in force when the node statement was met
    pub shape: String,
    pub cluster: Option<String>,
    pub declarations: usize,
}

#[derive(Clone, Debug)]
pub struct Edge {
    pub from: String,
    pub to: String,
    pub attrs: BTreeMap<String, String>,
    pub cluster: Option<String>,
}

#[derive(Clone, Debug, Default)]
pub struct Graph {
    pub name: String,
    pub nodes: BTreeMap<String, Node>,
    pub edges: Vec<Edge>,
    /// cluster name -> label
    pub clusters: BTreeMap<String, Option<String>>,
}

struct P {
    t: Vec<Tok>,
    i: usize,
}

impl P {
    fn peek(&self) -> Option<&Tok> {
        self.t.get(self.i)
    }
    fn next(&mut self) -> Option<Tok> {
        let x = self.t.get(self.i).cloned();
        self.i += 1;
        x
    }
    fn id(&mut self) -> Result<String, String> {
        match self.next() {
            Some(Tok::Id(s)) | Some(Tok::Str(s)) => Ok(s),
            other => Err(format!("expected an ID, found {other:?}")),
        }
    }
    fn attrs(&mut self) -> Result<BTreeMap<String, String>, String> {
        let mut m = BTreeMap::new();
        while self.peek() == Some(&Tok::LBracket) {
            self.i += 1;
            loop {
                match self.peek() {
                    Some(Tok::RBracket) => {
                        self.i += 1;
                        break;
                    }
                    Some(Tok::Comma) | Some(Tok::Semi) => {
                        self.i += 1;
                    }
                    _ => {
                        let k = self.id()?;
                        if self.next() != Some(Tok::Eq) {
                            return Err(format!("expected `=` after attribute name {k:?}"));
                        }
                        let v = self.id()?;
                        m.insert(k, v);
                    }
                }
            }
        }
        Ok(m)
    }
    fn stmts(&mut self, g: &mut Graph, cluster: Option<String>, shape: &mut String) -> Result<(), String> {
        loop {
            match self.peek().cloned() {
                None => return Err("unexpected end of file: missing `}`".into()),
                Some(Tok::RBrace) => {
                    self.i += 1;
                    return Ok(());
                }
                Some(Tok::Semi) => {
                    self.i += 1;
                }
                Some(Tok::Id(w)) if w == "subgraph" => {
                    self.i += 1;
                    let name = self.id()?;
                    if self.next() != Some(Tok::LBrace) {
                        return Err(format!("expected `{{` after subgraph {name}"));
                    }
                    if g.clusters.insert(name.clone(), None).is_some() {
                        return Err(format!("subgraph {name} defined twice"));
                    }
                    let mut inner_shape = shape.clone();
                    self.stmts(g, Some(name), &mut inner_shape)?;
                }
                Some(Tok::Id(w)) if (w == "node" || w == "edge" || w == "graph") && self.t.get(self.i + 1) == Some(&Tok::LBracket) => {
                    self.i += 1;
                    let a = self.attrs()?;
                    if w == "node" {
                        if let Some(s) = a.get("shape") {
                            *shape = s.clone();
                        }
                    }
                }
                Some(Tok::Id(_)) | Some(Tok::Str(_)) => {
                    let first = self.id()?;
                    match self.peek() {
                        Some(Tok::Eq) => {
                            self.i += 1;
                            let v = self.id()?;
                            if first == "label" {
                                if let Some(c) = &cluster {
                                    g.clusters.insert(c.clone(), Some(v));
                                }
                            }
                        }
                        Some(Tok::Arrow) => {
                            let mut chain = vec![first];
                            while self.peek() == Some(&Tok::Arrow) {
                                self.i += 1;
                                chain.push(self.id()?);
                            }
                            let a = self.attrs()?;
                            for w in chain.windows(2) {
                                g.edges.push(Edge { from: w[0].clone(), to: w[1].clone(), attrs: a.clone(), cluster: cluster.clone() });
                            }
                        }
                        _ => {
                            let a = self.attrs()?;
                            let n = g.nodes.entry(first).or_default();
                            n.declarations += 1;
                            n.attrs.extend(a);
                            n.shape = shape.clone();
                            if n.cluster.is_none() {
                                n.cluster = cluster.clone();
                            }
                        }
                    }
                }
                Some(other) => return Err(format!("unexpected token {other:?}")),
            }
        }
    }
}

pub fn parse(text: &str) -> Result<Graph, String> {
    let toks = lex(text)?;
    let mut p = P { t: toks, i: 0 };
    match p.next() {
        Some(Tok::Id(w)) if w == "digraph" => {}
        other => return Err(format!("expected `digraph`, found {other:?}")),
    }
    let mut g = Graph::default();
    if let Some(Tok::Id(_)) | Some(Tok::Str(_)) = p.peek() {
        g.name = p.id()?;
    }
    if p.next() != Some(Tok::LBrace) {
        return Err("expected `{` after digraph".into());
    }
    let mut shape = String::from("ellipse");
    p.stmts(&mut g, None, &mut shape)?;
    if p.i != p.t.len() {
        return Err(format!("trailing tokens after the closing brace: {:?}", &p.t[p.i..(p.i + 3).min(p.t.len())]));
    }
    Ok(g)
}

/// interpret the escapes of a label attribute value: `\\` -> `\`, `\n` `\l` `\r` -> newline
pub fn label_text(s: &str) -> String {
    let c: Vec<char> = s.chars().collect();
    let mut out = String::new();
    let mut i = 0;
    while i < c.len() {
        if c[i] == '\\' && i + 1 < c.len() {
            match c[i + 1] {
                '\\' => out.push('\\'),
                'n' | 'l' | 'r' => out.push('\n'),
                other => {
                    out.push('\\');
                    out.push(other);
                }
            }
            i += 2;
        } else {
            out.push(c[i]);
            i += 1;
        }
    }
    out
}

#[cfg(test)]
mod tests {
    use super::*;
    #[test]
    fn parses_and_rejects() {
        let g = parse("digraph d {\n rankdir=LR;\n node [shape=circle];\n _0[label=\"a \\\"b\\\\\\\" c\"];\n _0 -> _1 [label=\"x\"];\n subgraph cluster_0 { label=\"s\"; _0_1[label=\"q\"]; }\n}\n").unwrap();
        assert_eq!(g.nodes.len(), 2);
        assert_eq!(g.edges.len(), 1);
        assert!(parse("digraph d { _0[label=\"a\\\\\"b\"]; }").is_err());
        assert!(parse("digraph d { _0[label=\"a\"]; ").is_err());
    }
}
