//! The enumerated grammar families (DESIGN.md section 3).

use crate::ast::{Stmt, E, G};
use crate::enumr::{Enumerator, Vocab};

pub const CMD: &str = "cmd";

pub fn v0() -> Vocab {
    Vocab {
        descrs: vec!["d2".to_string()],
        ..Vocab::basic(vec![
            E::lit("a"),
            E::lit("b"),
            E::lit("ab"),
            E::litd("a", "d1"),
            E::r("U"),
            E::cmd("c1"),
        ])
    }
}

/// vocabulary for grammars with definitions of X and Y
pub fn v_defs_main() -> Vocab {
    Vocab { descrs: vec![], ..Vocab::basic(vec![E::lit("a"), E::lit("b"), E::r("X"), E::r("Y")]) }
}

pub fn v_defs_body1() -> Vocab {
    Vocab { descrs: vec!["d2".into()], ..Vocab::basic(vec![E::lit("a"), E::lit("c"), E::r("Y"), E::cmd("c1")]) }
}

pub fn v_defs_body2() -> Vocab {
    Vocab { descrs: vec![], ..Vocab::basic(vec![E::lit("a"), E::litd("c", "d1"), E::cmd("c2")]) }
}

pub fn call(e: E) -> G {
    G { stmts: vec![Stmt::Call { name: CMD.to_string(), expr: e }] }
}

pub fn def(name: &str, e: E) -> Stmt {
    Stmt::Def { name: name.to_string(), shell: None, expr: e }
}

pub fn spec(name: &str, shell: &str, cmd: &str) -> Stmt {
    Stmt::Def { name: name.to_string(), shell: Some(shell.to_string()), expr: E::cmd(cmd) }
}

/// `cmd E` for every tree E with at most k nodes over `vocab`
pub fn single_call(vocab: Vocab, k: usize, f: &mut dyn FnMut(G)) {
    let en = Enumerator::new(vocab, k.min(4));
    en.for_each_upto(k, &mut |e| f(call(e.clone())));
}

/// `cmd E; <X> = B1; <Y> = B2;` in both definition orders, plus the one-definition grammars
pub fn with_defs(k_main: usize, k_b1: usize, k_b2: usize, f: &mut dyn FnMut(G)) {
    let em = Enumerator::new(v_defs_main(), k_main.min(4));
    let e1 = Enumerator::new(v_defs_body1(), k_b1.min(4));
    let e2 = Enumerator::new(v_defs_body2(), k_b2.min(4));
    let mut mains = vec![];
    em.for_each_upto(k_main, &mut |e| {
        if e.any(|x| matches!(x, E::Ref(_))) {
            mains.push(e.clone())
        }
    });
    let mut b1s = vec![];
    e1.for_each_upto(k_b1, &mut |e| b1s.push(e.clone()));
    let mut b2s = vec![];
    e2.for_each_upto(k_b2, &mut |e| b2s.push(e.clone()));
    for m in &mains {
        for b1 in &b1s {
            f(G { stmts: vec![Stmt::Call { name: CMD.into(), expr: m.clone() }, def("X", b1.clone())] });
            for b2 in &b2s {
                let c = Stmt::Call { name: CMD.into(), expr: m.clone() };
                f(G { stmts: vec![c.clone(), def("X", b1.clone()), def("Y", b2.clone())] });
                f(G { stmts: vec![def("Y", b2.clone()), c.clone(), def("X", b1.clone())] });
            }
        }
    }
}

/// Definition DAGs: names D0..D(n-1), `cmd <D0>`, every subset of the forward edges i -> j
/// (i < j) such that every definition is reachable, bodies `l<i> <refs...>` (sequence, optional,
/// alternative shapes by parity), in three textual orders (top-down, bottom-up, rotated).
pub fn def_dags(n: usize, f: &mut dyn FnMut(G)) {
    let pairs: Vec<(usize, usize)> = (0..n).flat_map(|i| ((i + 1)..n).map(move |j| (i, j))).collect();
    for mask in 0u32..(1u32 << pairs.len()) {
        let edges: Vec<(usize, usize)> = pairs.iter().enumerate().filter(|(k, _)| mask & (1 << k) != 0).map(|(_, e)| *e).collect();
        // every node other than 0 needs an incoming edge (else it is an unused definition;
        // those are C15's business)
        if (1..n).any(|j| !edges.iter().any(|(_, t)| *t == j)) {
            continue;
        }
        let mut defs: Vec<Stmt> = vec![];
        for i in 0..n {
            let mut items = vec![E::lit(&format!("l{i}"))];
            for (k, (_, j)) in edges.iter().filter(|(a, _)| *a == i).enumerate() {
                let r = E::r(&format!("D{j}"));
                items.push(match (i + k + mask as usize) % 3 {
                    0 => r,
                    1 => E::Opt(Box::new(r)),
                    _ => E::Alt(vec![E::lit(&format!("m{i}")), r]),
                });
            }
            let body = if items.len() == 1 { items.pop().unwrap() } else { E::Seq(items) };
            defs.push(def(&format!("D{i}"), body));
        }
        let c = Stmt::Call { name: CMD.into(), expr: E::r("D0") };
        let mut top_down = vec![c.clone()];
        top_down.extend(defs.iter().cloned());
        f(G { stmts: top_down });
        let mut bottom_up: Vec<Stmt> = defs.iter().rev().cloned().collect();
        bottom_up.push(c.clone());
        f(G { stmts: bottom_up });
        let mut rotated: Vec<Stmt> = defs.clone();
        rotated.rotate_left(n / 2);
        rotated.insert(1, c.clone());
        f(G { stmts: rotated });
    }
}

// ---------------------------------------------------------------------------------------------
// supplementary seeded random tier (labelled as such in the evidence; never part of the
// exhaustive counts)
// ---------------------------------------------------------------------------------------------

pub struct Rng(pub u64);

impl Rng {
    pub fn new(seed: u64) -> Self {
        Rng(seed.wrapping_mul(0x9E3779B97F4A7C15) ^ 0xD1B54A32D192ED03)
    }
    pub fn next(&mut self) -> u64 {
        let mut x = self.0;
        x ^= x >> 12;
        x ^= x << 25;
        x ^= x >> 27;
        self.0 = x;
        x.wrapping_mul(0x2545F4914F6CDD1D)
    }
    pub fn below(&mut self, n: usize) -> usize {
        (self.next() % n.max(1) as u64) as usize
    }
}

/// random tree with exactly `size` nodes (outside words; words only as `lit=(...)` leaves)
pub fn random_tree(rng: &mut Rng, size: usize, leaves: &[E], allow_fb: bool) -> E {
    if size <= 1 {
        return leaves[rng.below(leaves.len())].clone();
    }
    if size == 2 {
        let c = random_tree(rng, 1, leaves, allow_fb);
        return if rng.below(2) == 0 { E::Opt(Box::new(c)) } else { E::Many(Box::new(c)) };
    }
    match rng.below(10) {
        0 | 1 => E::Opt(Box::new(random_tree(rng, size - 1, leaves, allow_fb))),
        2 | 3 => E::Many(Box::new(random_tree(rng, size - 1, leaves, allow_fb))),
        k => {
            let max_arity = (size - 1).min(4);
            let arity = 2 + rng.below(max_arity - 1);
            // split size-1 into `arity` positive parts
            let mut parts = vec![1usize; arity];
            for _ in 0..(size - 1 - arity) {
                let i = rng.below(arity);
                parts[i] += 1;
            }
            let cs: Vec<E> = parts.iter().map(|p| random_tree(rng, *p, leaves, allow_fb)).collect();
            match k {
                4 | 5 | 6 | 7 => E::Seq(cs),
                8 => E::Alt(cs),
                _ => {
                    if allow_fb {
                        E::Fb(cs)
                    } else {
                        E::Alt(cs)
                    }
                }
            }
        }
    }
}

pub fn random_grammars(seed: u64, n: usize, f: &mut dyn FnMut(G)) {
    let mut rng = Rng::new(seed);
    let leaves = vec![E::lit("a"), E::lit("b"), E::lit("d"), E::lit("d"), E::r("U"), E::cmd("c1")];
    for _ in 0..n {
        let size = 8 + rng.below(16);
        let fb = rng.below(3) == 0;
        f(call(random_tree(&mut rng, size, &leaves, fb)));
    }
}

/// grammars whose output could depend on the textual order of definitions: alternatives /
/// sequences / fallbacks of bare references whose definitions are commands, words or literals
pub fn order_sensitive(f: &mut dyn FnMut(G)) {
    let bodies: Vec<E> = vec![
        E::cmd("echo from"),
        E::cmd("echo to"),
        E::Word(vec![E::lit("x="), E::Alt(vec![E::lit("a"), E::lit("b")])]),
        E::Word(vec![E::lit("y="), E::Alt(vec![E::lit("c"), E::lit("d")])]),
        E::Alt(vec![E::lit("p"), E::lit("q")]),
        // a body that starts with `:` / `=` (right after the definition operator)
        E::Alt(vec![E::lit(":x"), E::lit("=y")]),
    ];
    let x = || E::r("SRC");
    let y = || E::r("DST");
    let mains: Vec<E> = vec![
        E::Seq(vec![E::Alt(vec![x(), y()]), E::lit("done")]),
        E::Alt(vec![y(), x()]),
        E::Fb(vec![x(), y()]),
        E::Seq(vec![x(), y()]),
        E::Alt(vec![E::Seq(vec![E::lit("s"), x()]), E::Seq(vec![E::lit("d"), y()]), x()]),
        E::Seq(vec![E::Opt(Box::new(y())), E::Many(Box::new(E::Alt(vec![x(), y()])))]),
        // the same reference twice among the branches
        E::Alt(vec![x(), y(), x()]),
        E::Seq(vec![E::Alt(vec![E::lit("start"), x(), E::lit("stop"), x()]), E::lit("now")]),
        E::Fb(vec![y(), x(), y()]),
        E::Seq(vec![x(), y(), x()]),
    ];
    // a redefined built-in name referenced from the call and from another definition: the
    // override must not depend on where the definitions stand
    for builtin in ["PATH", "DIRECTORY"] {
        let b = || E::r(builtin);
        f(G { stmts: vec![Stmt::Call { name: CMD.into(), expr: E::Alt(vec![E::Seq(vec![E::lit("--file"), E::r("F")]), b()]) }, def("F", E::Seq(vec![E::lit("x"), b()])), def(builtin, E::cmd("echo mine"))] });
        f(G { stmts: vec![def(builtin, E::cmd("echo mine")), Stmt::Call { name: CMD.into(), expr: E::r("A") }, def("A", E::Alt(vec![E::lit("a"), E::r("B")])), def("B", E::Word(vec![E::lit("k="), b()]))] });
    }
    for m in &mains {
        for b1 in &bodies {
            for b2 in &bodies {
                if b1 == b2 {
                    continue;
                }
                f(G { stmts: vec![Stmt::Call { name: CMD.into(), expr: m.clone() }, def("SRC", b1.clone()), def("DST", b2.clone())] });
                f(G { stmts: vec![def("DST", b2.clone()), Stmt::Call { name: CMD.into(), expr: m.clone() }, def("SRC", b1.clone())] });
            }
        }
    }
}

/// pairs of within-word expressions over one small vocabulary (shapes whose compiled automata
/// have the same structure over permuted input pools, equal languages spelled differently, ...)
pub fn twin_words(k: usize, f: &mut dyn FnMut(G)) {
    let v = Vocab { descrs: vec![], word: false, ..Vocab::basic(vec![E::lit("p"), E::lit("q"), E::lit("r")]) };
    let en = Enumerator::new(v, k.min(4));
    let mut ws: Vec<E> = vec![];
    for n in 2..=k {
        en.for_each(n, true, &mut |e| {
            if let E::Seq(cs) = e {
                ws.push(E::Word(cs.clone()));
            }
        });
    }
    for w1 in &ws {
        for w2 in &ws {
            f(call(E::Alt(vec![E::Seq(vec![w1.clone(), E::lit("x")]), E::Seq(vec![w2.clone(), E::lit("y")])])));
            f(call(E::Fb(vec![w1.clone(), w2.clone()])));
        }
    }
    // one definition used at two fallback levels
    let vb = Vocab { descrs: vec![], word: false, ..Vocab::basic(vec![E::lit("a"), E::lit("b")]) };
    let enb = Enumerator::new(vb, 3);
    enb.for_each_upto(3, &mut |b| {
        for main in [E::Fb(vec![E::r("X"), E::r("X")]), E::Fb(vec![E::r("X"), E::r("X"), E::lit("b")]), E::Many(Box::new(E::Fb(vec![E::r("X"), E::r("X")]))), E::Fb(vec![E::lit("b"), E::r("X"), E::r("X")])] {
            f(G { stmts: vec![Stmt::Call { name: CMD.into(), expr: main }, def("X", E::Word(vec![E::lit("a"), E::r("Y")])), def("Y", b.clone())] });
        }
    });
}

/// Nested juxtaposition inside a word under every operator (`--m=(fast || slow(er|est))`): the
/// parser flattens the inner word into a sequence; also reached through definitions, where the
/// validator collapses it.  The AST keeps the nested `Word` so that the printer writes it
/// juxtaposed; `normalize_words` gives the tree the parser must produce.
pub fn nested_words(f: &mut dyn FnMut(G)) {
    let lit = E::lit;
    let inner: Vec<E> = vec![
        E::Word(vec![lit("slow"), E::Alt(vec![lit("er"), lit("est")])]),
        E::Word(vec![E::Opt(Box::new(lit("un"))), lit("do")]),
        E::Word(vec![lit("k"), E::cmd("c1")]),
        E::Word(vec![E::Alt(vec![lit("a"), lit("b")]), E::r("U")]),
    ];
    for j in &inner {
        let ops: Vec<E> = vec![
            E::Fb(vec![lit("fast"), j.clone()]),
            E::Fb(vec![j.clone(), lit("fast")]),
            E::Fb(vec![lit("fast"), j.clone(), lit("last")]),
            E::Alt(vec![lit("fast"), j.clone()]),
            E::Opt(Box::new(j.clone())),
            E::Many(Box::new(E::Alt(vec![lit(","), j.clone()]))),
            E::Descr(Box::new(E::Alt(vec![j.clone(), lit("plain")])), "dd".into()),
            E::Fb(vec![E::Alt(vec![lit("x"), j.clone()]), E::Opt(Box::new(j.clone()))]),
            E::Alt(vec![E::Fb(vec![lit("l0"), lit("l1")]), E::Fb(vec![lit("m0"), j.clone()])]),
        ];
        for op in ops {
            f(call(E::Word(vec![lit("--mode="), op.clone()])));
            f(call(E::Seq(vec![E::Word(vec![lit("--mode="), op.clone()]), lit("t")])));
            // through a definition (collapse_subwords) and through two
            f(G { stmts: vec![Stmt::Call { name: CMD.into(), expr: E::Word(vec![lit("--mode="), E::r("M")]) }, def("M", op.clone())] });
            f(G {
                stmts: vec![
                    Stmt::Call { name: CMD.into(), expr: E::Fb(vec![lit("first"), E::Word(vec![lit("--mode="), E::r("M")])]) },
                    def("M", E::Alt(vec![lit("none"), E::r("N")])),
                    def("N", op.clone()),
                ],
            });
        }
    }
}

/// the tree the parser produces for an AST with nested words: inside a word every nested
/// `Word` is a plain sequence
pub fn normalize_words(e: &E, in_word: bool) -> E {
    match e {
        E::Lit(..) | E::Ref(_) | E::Cmd(_) => e.clone(),
        E::Word(cs) => {
            let v: Vec<E> = cs.iter().map(|c| normalize_words(c, true)).collect();
            if in_word { E::Seq(v) } else { E::Word(v) }
        }
        E::Seq(cs) => E::Seq(cs.iter().map(|c| normalize_words(c, in_word)).collect()),
        E::Alt(cs) => E::Alt(cs.iter().map(|c| normalize_words(c, in_word)).collect()),
        E::Fb(cs) => E::Fb(cs.iter().map(|c| normalize_words(c, in_word)).collect()),
        E::Opt(c) => E::Opt(Box::new(normalize_words(c, in_word))),
        E::Many(c) => E::Many(Box::new(normalize_words(c, in_word))),
        E::Descr(c, d) => E::Descr(Box::new(normalize_words(c, in_word)), d.clone()),
    }
}

/// Repeated loops of optional segments, `cmd (S1 S2 .. Sn)...;` with every Si from a menu of
/// literals, optional literals, optional runs and optional run-or-literal choices over
/// `letters`.  The automata have many nearly-equivalent states on a cycle, the shape that makes
/// partition refinement split a block by itself while other blocks still wait.
pub fn loop_segments(letters: &[&str], maxlen: usize, f: &mut dyn FnMut(G)) {
    let lit = E::lit;
    let mut menu: Vec<E> = vec![];
    for x in letters {
        menu.push(lit(x));
    }
    for x in letters {
        menu.push(E::Opt(Box::new(lit(x))));
    }
    for x in letters {
        menu.push(E::Opt(Box::new(E::Seq(vec![lit(x), lit(x)]))));
        menu.push(E::Opt(Box::new(E::Seq(vec![lit(x), lit(x), lit(x)]))));
    }
    for x in letters {
        for y in letters {
            if x != y {
                menu.push(E::Opt(Box::new(E::Alt(vec![E::Seq(vec![lit(x), lit(x), lit(x)]), lit(y)]))));
                menu.push(E::Opt(Box::new(E::Alt(vec![E::Seq(vec![lit(x), lit(x)]), lit(y)]))));
            }
        }
    }
    fn rec(menu: &[E], cur: &mut Vec<E>, left: usize, f: &mut dyn FnMut(G)) {
        if cur.len() >= 2 {
            f(call(E::Many(Box::new(E::Seq(cur.clone())))));
        }
        if left == 0 {
            return;
        }
        for m in menu {
            cur.push(m.clone());
            rec(menu, cur, left - 1, f);
            cur.pop();
        }
    }
    rec(&menu, &mut vec![], maxlen, f);
}

/// Two within-word expressions with the same language where the second repeats an alternative
/// (`f(A|B)` and `f(A|B|A)`, `f(A|B|B)`, `f((A|B)|A)`, `f(B|A)`): their minimal automata are
/// equal but are built in a different order, the inputs on which `==` and `Hash` of the
/// interned automata must agree (F25).
pub fn redundant_twins(f: &mut dyn FnMut(G)) {
    let lit = E::lit;
    let alt = |v: Vec<E>| E::Alt(v);
    let w = |v: Vec<E>| E::Word(v);
    let aa: Vec<E> = vec![
        lit("a"),
        lit("ax"),
        w(vec![lit("a"), alt(vec![lit("x"), lit("y")])]),
        w(vec![lit("a"), E::Opt(Box::new(lit("x")))]),
        w(vec![alt(vec![lit("a"), lit("c")]), lit("x")]),
        w(vec![lit("a"), E::cmd("c1")]),
    ];
    let bb: Vec<E> = vec![lit("b"), lit("bz"), w(vec![lit("b"), alt(vec![lit("z"), lit("w")])]), w(vec![lit("b"), E::Opt(Box::new(lit("z")))]), w(vec![lit("b"), E::r("U")])];
    for a in &aa {
        for b in &bb {
            let first = w(vec![lit("f"), alt(vec![a.clone(), b.clone()])]);
            let seconds = vec![
                alt(vec![a.clone(), b.clone(), a.clone()]),
                alt(vec![a.clone(), b.clone(), b.clone()]),
                alt(vec![alt(vec![a.clone(), b.clone()]), a.clone()]),
                alt(vec![b.clone(), a.clone()]),
                alt(vec![b.clone(), a.clone(), b.clone()]),
            ];
            for s2 in seconds {
                let second = w(vec![lit("f"), s2]);
                f(call(E::Seq(vec![first.clone(), second.clone()])));
                f(call(E::Alt(vec![E::Seq(vec![first.clone(), lit("p")]), E::Seq(vec![second.clone(), lit("q")])])));
            }
        }
    }
}

/// Plain sequences `cmd S1 S2 .. Sk;` of up to `maxlen` segments from a five-entry menu over two
/// letters (`a`, `b`, `a...`, `(a|b)`, `[a]`): long chains of states that differ only in how
/// far they are from the end, with repetitions and choices in between — the other shape (next
/// to `loop_segments`) on which a partition-refinement work list goes through many self-splits.
pub fn segment_sequences(maxlen: usize, f: &mut dyn FnMut(G)) {
    let lit = E::lit;
    let menu: Vec<E> = vec![lit("a"), lit("b"), E::Many(Box::new(lit("a"))), E::Alt(vec![lit("a"), lit("b")]), E::Opt(Box::new(lit("a")))];
    fn rec(menu: &[E], cur: &mut Vec<E>, left: usize, f: &mut dyn FnMut(G)) {
        if cur.len() >= 2 {
            f(call(E::Seq(cur.clone())));
        }
        if left == 0 {
            return;
        }
        for m in menu {
            cur.push(m.clone());
            rec(menu, cur, left - 1, f);
            cur.pop();
        }
    }
    rec(&menu, &mut vec![], maxlen, f);
}

/// Words made of two or three juxtaposed factors from a menu rich in repetition and optionality
/// (`[a]...[b]...`, `a...[b]`, `(a|b)...a`): within-word automata whose start state is
/// accepting or has a loop, the shapes a second pass over an already numbered automaton confuses.
pub fn word_stars(f: &mut dyn FnMut(G)) {
    let lit = E::lit;
    let opt = |e: E| E::Opt(Box::new(e));
    let many = |e: E| E::Many(Box::new(e));
    let ab = || E::Alt(vec![lit("a"), lit("b")]);
    let menu: Vec<E> = vec![lit("a"), lit("b"), opt(lit("a")), opt(lit("b")), many(lit("a")), many(opt(lit("a"))), many(opt(lit("b"))), many(ab()), many(opt(ab())), opt(ab())];
    let plain = |e: &E| matches!(e, E::Lit(..));
    let mut emit = |fs: Vec<E>, f: &mut dyn FnMut(G)| {
        if fs.windows(2).any(|w| plain(&w[0]) && plain(&w[1])) {
            return;
        }
        f(call(E::Word(fs.clone())));
        f(call(E::Seq(vec![E::Word(fs), lit("t")])));
    };
    for x in &menu {
        for y in &menu {
            emit(vec![x.clone(), y.clone()], f);
            for z in &menu {
                emit(vec![x.clone(), y.clone(), z.clone()], f);
            }
        }
    }
}

/// Items of different kinds with the same text at one point (`ls a | {{{ ls }}} b`, a command
/// and a per-shell definition running the same command line): they are different expectations.
pub fn kind_twins(f: &mut dyn FnMut(G)) {
    let lit = E::lit;
    let pairs: Vec<(E, E)> = vec![(lit("c1"), E::cmd("c1")), (lit("ls"), E::cmd("ls")), (E::cmd("c1"), E::r("X")), (lit("c1"), E::r("X"))];
    for (x, y) in pairs {
        for (l, r) in [(x.clone(), y.clone()), (y.clone(), x.clone())] {
            for main in [
                E::Alt(vec![E::Seq(vec![l.clone(), lit("a")]), E::Seq(vec![r.clone(), lit("b")])]),
                E::Fb(vec![E::Seq(vec![l.clone(), lit("a")]), E::Seq(vec![r.clone(), lit("b")])]),
                E::Seq(vec![E::Alt(vec![l.clone(), E::Seq(vec![r.clone(), lit("b")])]), lit("t")]),
                E::Alt(vec![E::Seq(vec![E::Word(vec![lit("k="), l.clone()]), lit("a")]), E::Seq(vec![E::Word(vec![lit("k="), r.clone()]), lit("b")])]),
            ] {
                let mut g = call(main);
                for sh in ["bash", "fish", "zsh", "pwsh"] {
                    g.stmts.push(Stmt::Def { name: "X".into(), shell: Some(sh.into()), expr: E::cmd("c1") });
                }
                f(g);
            }
        }
    }
}

/// A definition whose body is a word made only of `||` groups, referenced under two different
/// outer `||` levels (the only way to meet one within-word expression at two levels).
pub fn fallback_only_words(f: &mut dyn FnMut(G)) {
    let lit = E::lit;
    let fb = |a: &str, b: &str| E::Fb(vec![lit(a), lit(b)]);
    let bodies: Vec<E> = vec![
        E::Word(vec![fb("a", "b"), fb("c", "d")]),
        E::Word(vec![lit("--a="), fb("p", "q")]),
        E::Word(vec![lit("--a="), E::Alt(vec![lit("p"), lit("q")])]),
        E::Word(vec![fb("a", "b"), E::r("U")]),
        E::Word(vec![fb("a", "b"), E::cmd("c1")]),
    ];
    let s = || E::r("S");
    let mains: Vec<E> = vec![
        E::Alt(vec![E::Seq(vec![lit("k"), E::Fb(vec![s(), lit("m")])]), E::Seq(vec![lit("j"), E::Fb(vec![lit("m"), s()])])]),
        E::Alt(vec![E::Seq(vec![lit("k"), E::Fb(vec![lit("m"), s()])]), E::Seq(vec![lit("j"), E::Fb(vec![s(), lit("m")])])]),
        E::Fb(vec![E::Seq(vec![s(), lit("y")]), E::Seq(vec![lit("n"), s(), lit("z")])]),
        E::Seq(vec![E::Fb(vec![lit("m"), s()]), E::Fb(vec![s(), lit("m")])]),
        E::Fb(vec![lit("m"), lit("n"), s()]),
    ];
    for b in &bodies {
        for m in &mains {
            f(G { stmts: vec![Stmt::Call { name: CMD.into(), expr: m.clone() }, def("S", b.clone())] });
            f(G { stmts: vec![def("S", b.clone()), Stmt::Call { name: CMD.into(), expr: m.clone() }] });
        }
    }
}

/// A handful of grammars that are long, deep or wide rather than intricate: a pass that gives up
/// (or starts to differ) beyond some depth or count shows only on these.
pub fn deep_shapes(f: &mut dyn FnMut(G)) {
    let lit = E::lit;
    // 300 words in a row, the last ones with a choice and a fallback
    let mut items: Vec<E> = (0..300).map(|i| lit(&format!("w{i}"))).collect();
    items.push(E::Alt(vec![lit("p"), E::litd("q", "dq")]));
    items.push(E::Fb(vec![lit("r"), E::Word(vec![lit("s="), E::Alt(vec![lit("u"), lit("v")])])]));
    f(call(E::Seq(items)));
    // optional nesting 60 deep: [a0 [a1 [a2 ...]]]
    let mut e = E::Opt(Box::new(lit("a60")));
    for i in (0..60).rev() {
        e = E::Opt(Box::new(E::Seq(vec![lit(&format!("a{i}")), e])));
    }
    f(call(e));
    // 300 alternatives, 40 fallback levels
    f(call(E::Seq(vec![E::Alt((0..300).map(|i| lit(&format!("l{i}"))).collect()), lit("t")])));
    f(call(E::Seq(vec![E::Fb((0..40).map(|i| if i % 7 == 3 { E::cmd(&format!("c{i}")) } else { lit(&format!("f{i}")) }).collect()), lit("t")])));
    // a chain of 40 definitions, the last one a word with a fallback
    let mut stmts = vec![Stmt::Call { name: CMD.into(), expr: E::Seq(vec![E::r("K0"), lit("end")]) }];
    for i in 0..40 {
        stmts.push(def(&format!("K{i}"), E::Seq(vec![lit(&format!("k{i}")), E::r(&format!("K{}", i + 1))])));
    }
    stmts.push(def("K40", E::Word(vec![lit("--z="), E::Fb(vec![lit("m"), lit("n")])])));
    f(G { stmts });
    // one word of 30 factors
    let mut fs = vec![lit("x")];
    for i in 0..30 {
        fs.push(E::Alt(vec![lit(&format!("a{i}")), lit(&format!("b{i}"))]));
    }
    f(call(E::Seq(vec![E::Word(fs), lit("t")])));
    // 40 within-word expressions of two shapes
    f(call(E::Many(Box::new(E::Alt((0..40).map(|i| if i % 2 == 0 { E::Word(vec![lit(&format!("--o{i}=")), E::Alt(vec![lit("y"), lit("n")])]) } else { E::Word(vec![lit(&format!("--o{i}=")), E::r("U")]) }).collect())))));
}

/// Two within-word expressions written alike that differ only in a literal's description (or
/// in having one): they are different items for the shells that show descriptions.
pub fn described_twins(f: &mut dyn FnMut(G)) {
    let lit = E::lit;
    let x = |d: Option<&str>| match d {
        Some(d) => E::litd("x", d),
        None => lit("x"),
    };
    let ds = [None, Some("one"), Some("two")];
    for d1 in ds {
        for d2 in ds {
            if d1 == d2 {
                continue;
            }
            let w1 = E::Word(vec![lit("--a="), E::Alt(vec![x(d1), lit("z")])]);
            let w2 = E::Word(vec![lit("--a="), E::Alt(vec![x(d2), lit("z")])]);
            f(call(E::Alt(vec![w1.clone(), E::Seq(vec![lit("y"), w2.clone()])])));
            f(call(E::Fb(vec![E::Seq(vec![lit("p"), w1.clone()]), E::Seq(vec![lit("q"), w2.clone()])])));
            f(G { stmts: vec![Stmt::Call { name: CMD.into(), expr: E::Seq(vec![lit("u"), w1.clone()]) }, Stmt::Call { name: CMD.into(), expr: E::Seq(vec![lit("v"), w2.clone()]) }] });
            f(G { stmts: vec![Stmt::Call { name: CMD.into(), expr: E::Alt(vec![E::r("A"), E::Seq(vec![lit("y"), E::r("B")])]) }, def("A", w1.clone()), def("B", w2.clone())] });
        }
    }
}
