//! C13 — diagnostics point at the construct they complain about.
//!
//! The harness writes the grammar text itself, so it knows the byte offset (hence line and
//! column) of every planted token.  One located mistake or warning per text; the text before
//! the planted token is the exhaustive product of slot menus (what precedes it on its line,
//! which lines precede it, what separates it from its predecessor).

use crate::binrun::{self, Invocation, Scratch};
use crate::json::J;
use crate::pipe::{self, Outcome, Shell};
use crate::report::{Report, Samples, Tier};
use complgen::parse::HumanSpan;
use std::collections::{BTreeMap, BTreeSet};

const PRE: [&str; 10] = [
    "",
    "# comment\n",
    "\n",
    "\n\n",
    "\u{c}\n",
    "cmd zz;\n",
    "cmd m1\n  m2\n  m3;\n",
    "# \u{e9}\u{e9} non-ascii comment\n",
    "cmd q \"multi\nline descr\";\n",
    "cmd e1\\.e2 \\(e3\\);\n",
];

const HEAD: [&str; 15] = [
    "",
    "a",
    "foo\\.bar",
    "a\\|b c",
    "x\\\\",
    "q\\\"r",
    "p\\(s\\)",
    "l\\<t\\>",
    "v..",
    "w \"de\\\"s\"",
    "x=(y|z)",
    "[o]...",
    "\\;\\{\\}\\[\\]",
    // multi-byte text before the token on its line: columns may count bytes or characters
    "w \"d\u{e9}\u{142}\u{20ac}\"",
    "{{{ echo \u{17c}\u{f3}\u{142} }}}",
];

const SEP: [&str; 8] = [" ", "  ", "\t", "\n", "\n    ", "\n\t", " # c\n", "\n\n"];

#[derive(Clone, Debug)]
struct Expect {
    role: &'static str,
    offset: usize,
    len: usize,
}

struct Case {
    kind: &'static str,
    text: String,
    /// spans in the order the binary prints them (None = order/set not fixed: cycle)
    expect: Vec<Expect>,
    ordered: bool,
    /// Some(label) for warnings, None for errors
    warning: Option<&'static str>,
    slot: (usize, usize, usize),
    /// target shell the case is compiled for
    target: &'static str,
}

struct Doc {
    s: String,
    marks: Vec<Expect>,
}

impl Doc {
    fn new() -> Self {
        Doc { s: String::new(), marks: vec![] }
    }
    fn p(&mut self, t: &str) -> &mut Self {
        self.s.push_str(t);
        self
    }
    fn mark(&mut self, role: &'static str, t: &str) -> &mut Self {
        self.marks.push(Expect { role, offset: self.s.len(), len: t.len() });
        self.s.push_str(t);
        self
    }
    /// mark a sub-range of the token about to be written
    fn mark_in(&mut self, role: &'static str, t: &str, start: usize, len: usize) -> &mut Self {
        self.marks.push(Expect { role, offset: self.s.len() + start, len });
        self.s.push_str(t);
        self
    }
}

fn or_a(h: &str) -> &str {
    if h.is_empty() { "a" } else { h }
}

fn first_token(h: &str) -> &str {
    h.split(' ').next().unwrap_or(h)
}

fn cases(f: &mut dyn FnMut(Case)) {
    for (pi, pre) in PRE.iter().enumerate() {
        for (hi, head) in HEAD.iter().enumerate() {
            for (si, sep) in SEP.iter().enumerate() {
                let slot = (pi, hi, si);
                let mk = |kind: &'static str, d: Doc, ordered: bool, warning: Option<&'static str>| Case { kind, text: d.s, expect: d.marks, ordered, warning, slot, target: "bash" };
                // K1 undefined nonterminal
                {
                    let mut d = Doc::new();
                    d.p(pre).p("cmd");
                    if !head.is_empty() {
                        d.p(" ").p(head);
                    }
                    d.p(sep).mark("undefined", "<UNDEF>").p(";\n");
                    f(mk("undefined", d, true, Some("Undefined")));
                }
                // K2 unused definition
                {
                    let mut d = Doc::new();
                    d.p(pre).p("cmd ").p(or_a(head)).p(";").p(sep).mark("unused", "<X>").p(" = b;\n");
                    f(mk("unused", d, true, Some("Unused")));
                }
                // K3 unused specialization
                {
                    let mut d = Doc::new();
                    d.p(pre).p("cmd ").p(or_a(head)).p(";").p(sep).mark("unused-spec", "<X@bash>").p(" = {{{ c }}};\n");
                    f(mk("unused-specialization", d, true, Some("Unused specialization")));
                }
                // K4 duplicate definition (second first, then "Previous definition")
                {
                    let mut d = Doc::new();
                    d.p(pre).p("cmd <X>;\n");
                    let first_off = d.s.len();
                    d.p("<X> = ").p(or_a(head)).p(";").p(sep).mark("duplicate", "<X>").p(" = b;\n");
                    d.marks.push(Expect { role: "previous", offset: first_off, len: 3 });
                    f(mk("duplicate-definition", d, true, None));
                }
                // K4b duplicate shell-specific definition for the target
                {
                    let mut d = Doc::new();
                    d.p(pre).p("cmd <X> ").p(or_a(head)).p(";\n");
                    let first_off = d.s.len();
                    d.p("<X@bash> = {{{ one }}};").p(sep).mark("duplicate", "<X@bash>").p(" = {{{ two }}};\n");
                    d.marks.push(Expect { role: "previous", offset: first_off, len: 8 });
                    f(mk("duplicate-specialization", d, true, None));
                }
                // K5 unknown shell
                {
                    let mut d = Doc::new();
                    d.p(pre).p("cmd ").p(or_a(head)).p(";").p(sep).mark_in("shell", "<X@tcsh>", 3, 4).p(" = {{{ c }}};\n");
                    f(mk("unknown-shell", d, true, None));
                }
                // K6 varying command names
                {
                    let mut d = Doc::new();
                    d.p(pre);
                    // the first command name of the file is the first reported
                    let first_cmd_off = if pre.contains("cmd ") { pre.find("cmd ").unwrap() } else { d.s.len() };
                    d.p("cmd ").p(or_a(head)).p(";").p(sep);
                    d.marks.push(Expect { role: "first-name", offset: first_cmd_off, len: 3 });
                    d.mark("other-name", "dmc").p(" b;\n");
                    f(mk("varying-command-names", d, true, None));
                }
                // K7 invalid command name (only meaningful when it is the file's only command)
                if !pre.contains("cmd ") {
                    let mut d = Doc::new();
                    d.p(pre).p(sep).mark("name", "/bin/cmd").p(" ").p(or_a(head)).p(";\n");
                    f(mk("invalid-command-name", d, true, None));
                }
                // K8 spaces inside a word, through a definition: left, right, reference site
                {
                    let mut d = Doc::new();
                    d.p(pre).p("cmd ").p(or_a(head)).p(" --o=");
                    let ref_off = d.s.len();
                    d.p("<A>;").p(sep).p("<A> = ").mark("left", "quit").p(" ").mark("right", "-f").p(";\n");
                    d.marks.push(Expect { role: "reference", offset: ref_off, len: 3 });
                    f(mk("subword-spaces", d, true, None));
                }
                // K8b: the left literal carries the escapes, the right one follows the separator
                if !head.is_empty() && !head.contains(' ') && !head.contains('=') && !head.contains('[') {
                    let mut d = Doc::new();
                    d.p(pre).p("cmd --o=");
                    let ref_off = d.s.len();
                    d.p("<A>;\n<A> = ").mark("left", head).p(sep).mark("right", "quit").p(";\n");
                    d.marks.push(Expect { role: "reference", offset: ref_off, len: 3 });
                    f(mk("subword-spaces-after-escape", d, true, None));
                }
                // K9 non-command specialization
                {
                    let mut d = Doc::new();
                    d.p(pre).p("cmd ").p(or_a(head)).p(";\n<X@bash> =").p(sep).mark("rhs", "foo").p(";\n");
                    f(mk("non-command-specialization", d, true, None));
                }
                // K10 placeholder inside a word that something follows
                {
                    let mut d = Doc::new();
                    d.p(pre).p("cmd");
                    if !head.is_empty() {
                        d.p(" ").p(head);
                    }
                    d.p(sep).mark("placeholder", "<U>").mark("follower", "x").p(";\n");
                    f(mk("unbounded-placeholder", d, true, None));
                }
                // K11 cycle: every reported span must coincide with an occurrence of <A> or <B>
                {
                    let mut d = Doc::new();
                    d.p(pre).p("cmd ").p(or_a(head)).p(";").p(sep).mark("name", "<A>").p(" = x ").mark("name", "<B>").p(";\n").mark("name", "<B>").p(" =\n  ").mark("name", "<A>").p(";\n");
                    f(mk("cycle", d, false, None));
                }
                // K12 parse error: the first statement that cannot be parsed
                {
                    let mut d = Doc::new();
                    d.p(pre).p("cmd ").p(or_a(head)).p(";").p(sep).mark("statement", "cmd").p(" (b;\n");
                    f(mk("parse-error", d, true, None));
                }
                let _ = first_token;
            }
        }
    }
    // shapes of the spaces-inside-a-word diagnostic (not multiplied by the slot menus)
    let mk = |kind: &'static str, d: Doc, ordered: bool| Case { kind, text: d.s, expect: d.marks, ordered, warning: None, slot: (0, 0, 0), target: "bash" };
    for mid in ["<X>", "{{{ c }}}"] {
        // the literal next to `v` is the last one of a group that ends in a group
        let mut d = Doc::new();
        d.p("cmd ({{{ d }}}(p ").p(mid).p(" ").mark("left", "q").p("))").mark("right", "v").p(";\n");
        f(mk("subword-spaces", d, true));
        // ... and the first one of a group that starts with a group
        let mut d = Doc::new();
        d.p("cmd ").mark("left", "v").p("((").mark("right", "p").p(" ").p(mid).p(")z);\n");
        f(mk("subword-spaces", d, true));
    }
    {
        // through two definitions: the group sits in the inner one
        let mut d = Doc::new();
        d.p("cmd --o=");
        let ref_off = d.s.len();
        d.p("<A>;\n<A> = (<Z>").mark("reference", "<B>").p(")").mark("right", "v").p(";\n<B> = p<X>").mark("left", "q").p(";\n");
        d.marks.push(Expect { role: "reference", offset: ref_off, len: 3 });
        f(mk("subword-spaces-nested", d, false));
    }
    // two (three) warnings of one kind in one file: each with its own location and source line
    for (kind, label, a, b, c3) in [
        ("undefined", "Undefined", ("cmd ", "<U1>", " x\n  "), ("", "<U2>", " y\n  "), ("", "<U3>", ";\n")),
        ("unused", "Unused", ("cmd a;\n", "<X>", " = b;\n# note\n"), ("", "<Y>", " = c;\n\n"), ("  ", "<Z>", " = d;\n")),
        ("unused-specialization", "Unused specialization", ("cmd a;\n", "<X@bash>", " = {{{ b }}};\n"), ("\n", "<Y@bash>", " = {{{ c }}};\n"), ("# c\n", "<Z@bash>", " = {{{ d }}};\n")),
    ] {
        let mut d = Doc::new();
        for (pre, tok, post) in [a, b, c3] {
            d.p(pre).mark(kind, tok).p(post);
        }
        f(Case { kind, text: d.s, expect: d.marks, ordered: true, warning: Some(label), slot: (0, 0, 0), target: "bash" });
    }
    // shell-specific definitions for every target: unused, and defined twice
    for target in ["bash", "fish", "zsh", "pwsh"] {
        let spec: &'static str = match target {
            "bash" => "<X@bash>",
            "fish" => "<X@fish>",
            "zsh" => "<X@zsh>",
            _ => "<X@pwsh>",
        };
        let mut d = Doc::new();
        d.p("cmd a;\n  ").mark("unused-spec", spec).p(" = {{{ c }}};\n");
        f(Case { kind: "unused-specialization", text: d.s, expect: d.marks, ordered: true, warning: Some("Unused specialization"), slot: (0, 0, 0), target });
        let mut d = Doc::new();
        d.p("cmd <X>;\n");
        let first_off = d.s.len();
        d.p(spec).p(" = {{{ one }}};\n  ").mark("duplicate", spec).p(" = {{{ two }}};\n");
        d.marks.push(Expect { role: "previous", offset: first_off, len: spec.len() });
        f(Case { kind: "duplicate-specialization", text: d.s, expect: d.marks, ordered: true, warning: None, slot: (0, 0, 0), target });
    }
    {
        // the group's description must not move the literals' locations
        let mut d = Doc::new();
        d.p("cmd --o=");
        let ref_off = d.s.len();
        d.p("<A>;\n<A> ::= ( ").mark("left", "quit").p(" ").mark("right", "-f").p(") \"descr\";\n");
        d.marks.push(Expect { role: "reference", offset: ref_off, len: 3 });
        f(mk("subword-spaces", d, true));
        let mut d = Doc::new();
        d.p("cmd --o=");
        let ref_off = d.s.len();
        d.p("<A>;\n<A> ::=\n  (").mark("left", "one").p(" ").mark("right", "two").p(" | three)\n  \"d\";\n");
        d.marks.push(Expect { role: "reference", offset: ref_off, len: 3 });
        f(mk("subword-spaces", d, true));
    }
    for other in ["{{{ c }}}", "lit", "x | y"] {
        // an unrelated reference earlier in the call must not show up among the locations
        let mut d = Doc::new();
        d.p("cmd <M> --o=");
        let ref_off = d.s.len();
        d.p("<A> <M>;\n<M> = ").p(other).p(";\n<A> = ").mark("left", "quit").p(" ").mark("right", "-f").p(";\n");
        d.marks.push(Expect { role: "reference", offset: ref_off, len: 3 });
        f(mk("subword-spaces", d, true));
    }
}

fn line_col(text: &str, offset: usize) -> (usize, usize) {
    let before = &text[..offset];
    let line = 1 + before.matches('\n').count();
    let col = offset - before.rfind('\n').map(|i| i + 1).unwrap_or(0) + 1;
    (line, col)
}

fn error_spans(e: &complgen::Error) -> Vec<HumanSpan> {
    use complgen::Error::*;
    match e {
        ParseError(s) | InvalidCommandName(s) | UnknownShell(s) | NonCommandSpecialization(s) => vec![*s],
        VaryingCommandNames(v) | NonterminalDefinitionsCycle(v) => v.to_vec(),
        // handle_error prints the second definition first, then the previous one
        DuplicateNonterminalDefinition(first, second) => vec![*second, *first],
        UnboundedMatchable(a, b) => vec![*a, *b],
        SubwordSpaces(a, b, t) => {
            let mut v = vec![*a, *b];
            v.extend(t.iter().copied());
            v
        }
        _ => vec![],
    }
}

fn expected_kind(kind: &str) -> &'static str {
    match kind {
        "duplicate-definition" | "duplicate-specialization" => "DuplicateNonterminalDefinition",
        "unknown-shell" => "UnknownShell",
        "varying-command-names" => "VaryingCommandNames",
        "invalid-command-name" => "InvalidCommandName",
        "subword-spaces" | "subword-spaces-after-escape" | "subword-spaces-nested" => "SubwordSpaces",
        "non-command-specialization" => "NonCommandSpecialization",
        "unbounded-placeholder" => "UnboundedMatchable",
        "cycle" => "NonterminalDefinitionsCycle",
        "parse-error" => "ParseError",
        _ => "",
    }
}

/// column of `offset` counted in characters
fn char_col(text: &str, offset: usize) -> usize {
    let before = &text[..offset];
    let start = before.rfind('\n').map(|i| i + 1).unwrap_or(0);
    before[start..].chars().count() + 1
}

/// compare reported spans with the planted positions; Err(description).  A column may count
/// bytes (what complgen does) or characters; start and end must use the same convention.
fn compare(case: &Case, got: &[(usize, usize, Option<usize>)]) -> Result<(), String> {
    // (line, [(start, end) in bytes, (start, end) in characters], role)
    let exp: Vec<(usize, [(usize, usize); 2], &str)> = case
        .expect
        .iter()
        .map(|e| {
            let (l, c) = line_col(&case.text, e.offset);
            let cc = char_col(&case.text, e.offset);
            let nchars = case.text[e.offset..e.offset + e.len].chars().count();
            (l, [(c, c + e.len), (cc, cc + nchars)], e.role)
        })
        .collect();
    let matches = |g: &(usize, usize, Option<usize>), e: &(usize, [(usize, usize); 2], &str), check_end: bool| -> bool {
        g.0 == e.0 && e.1.iter().any(|(s, en)| g.1 == *s && (!check_end || g.2.map(|end| end == *en).unwrap_or(true)))
    };
    if case.ordered {
        if got.len() != exp.len() {
            return Err(format!("{} location(s) reported, {} expected ({:?} vs {:?})", got.len(), exp.len(), got, exp));
        }
        for (g, e) in got.iter().zip(exp.iter()) {
            if !matches(g, e, false) {
                return Err(format!("{} reported at {}:{}, it starts at {}:{}", e.2, g.0, g.1, e.0, e.1[0].0));
            }
            if case.kind != "parse-error" && !matches(g, e, true) {
                return Err(format!("{} at {}:{} reported to end at column {:?}, the token ends at column {}", e.2, e.0, g.1, g.2, e.1[0].1));
            }
        }
    } else {
        if got.is_empty() {
            return Err("no location reported".into());
        }
        for g in got {
            if !exp.iter().any(|e| matches(g, e, true)) {
                return Err(format!("a location {}:{} is reported where none of the involved names occurs ({:?})", g.0, g.1, exp));
            }
        }
    }
    Ok(())
}

fn lib_locations(case: &Case) -> Result<Vec<(usize, usize, Option<usize>)>, String> {
    let shell = pipe::SHELLS.iter().find(|(_, n)| *n == case.target).map(|(s, _)| *s).unwrap_or(Shell::Bash);
    match pipe::compile(&case.text, shell) {
        Outcome::Ok(c) => match case.warning {
            Some(w) => {
                let list = match w {
                    "Undefined" => &c.undefined,
                    "Unused" => &c.unused,
                    _ => &c.unused_specs,
                };
                let other: usize = [&c.undefined, &c.unused, &c.unused_specs].iter().map(|l| l.len()).sum::<usize>() - list.len();
                if other != 0 {
                    return Err(format!("unexpected other warnings: undefined {:?} unused {:?} unused specs {:?}", c.undefined, c.unused, c.unused_specs));
                }
                Ok(list.iter().map(|(_, s)| (s.line, s.column_start, Some(s.column_end))).collect())
            }
            None => Err("accepted although a mistake was planted".into()),
        },
        Outcome::Err(e) => {
            if case.warning.is_some() {
                return Err(format!("rejected with {} although only a warning was planted", pipe::error_kind(&e)));
            }
            if pipe::error_kind(&e) != expected_kind(case.kind) {
                return Err(format!("rejected with {} instead of {}", pipe::error_kind(&e), expected_kind(case.kind)));
            }
            Ok(error_spans(&e).iter().map(|s| (s.line, s.column_start, Some(s.column_end))).collect())
        }
        Outcome::Panic(p) => Err(format!("panic: {p}")),
    }
}

/// parse `path:L:C:` prefixes and the snippet lines from the binary's stderr
fn stderr_locations(stderr: &str, path: &str) -> (Vec<(usize, usize, Option<usize>)>, Vec<(usize, String)>) {
    let mut locs = vec![];
    let mut snippets = vec![];
    let prefix = format!("{path}:");
    for line in stderr.lines() {
        if let Some(rest) = line.strip_prefix(&prefix) {
            let mut it = rest.splitn(3, ':');
            if let (Some(l), Some(c)) = (it.next(), it.next()) {
                if let (Ok(l), Ok(c)) = (l.parse::<usize>(), c.parse::<usize>()) {
                    locs.push((l, c, None));
                }
            }
        } else if let Some((num, src)) = line.split_once(" | ") {
            if let Ok(n) = num.trim().parse::<usize>() {
                snippets.push((n, src.to_string()));
            }
        } else if let Some(num) = line.strip_suffix(" |") {
            // an empty source line is printed as "N |"
            if let Ok(n) = num.trim().parse::<usize>() {
                snippets.push((n, String::new()));
            }
        }
    }
    (locs, snippets)
}

pub fn run(tier: Tier) -> Report {
    let mut rep = Report::new("C13", tier, "fault_enumeration");
    let mut all: Vec<Case> = vec![];
    cases(&mut |c| all.push(c));
    let mut per_kind: BTreeMap<&'static str, u64> = BTreeMap::new();
    let mut distinct: BTreeSet<u64> = BTreeSet::new();
    let mut samples = Samples::new(12);
    let mut lib_ok = 0u64;
    // ---- Level L: all placements
    for c in &all {
        *per_kind.entry(c.kind).or_default() += 1;
        distinct.insert(crate::report::fnv(&c.text));
        let res = lib_locations(c).and_then(|got| compare(c, &got));
        match res {
            Ok(()) => {
                lib_ok += 1;
                if c.slot.0 + c.slot.1 + c.slot.2 > 0 {
                    samples.offer(|| {
                        let e = &c.expect[0];
                        let (l, col) = line_col(&c.text, e.offset);
                        J::obj(vec![("kind", J::s(c.kind)), ("text", J::s(&c.text)), ("planted_at", J::s(format!("{l}:{col}")))])
                    });
                }
            }
            Err(why) => rep.violation(
                &format!("wrong-location-{}", c.kind),
                format!("{} diagnostic: {why}", c.kind),
                J::obj(vec![("kind", J::s(c.kind)), ("text", J::s(&c.text)), ("why", J::s(&why)), ("level", J::s("library (Error / warning spans)")), ("reproduce", J::s("complgen --bash /dev/null FILE   # FILE holds `text`"))]),
            ),
        }
    }
    // ---- Level B: the binary's rendering.  quick: every slot value once per kind; thorough: all
    let selected: Vec<&Case> = all
        .iter()
        .filter(|c| {
            if tier == Tier::Thorough {
                return true;
            }
            let (p, h, s) = c.slot;
            (p == 0 && h == 1) || (p == 0 && s == 0) || (h == 1 && s == 0) || (p == h % PRE.len() && s == (h + 1) % SEP.len())
        })
        .collect();
    let nbin = selected.len();
    let results = crate::par::run(
        4,
        |push| {
            for c in selected {
                push(c);
            }
        },
        || (Scratch::new("c13"), Vec::<(String, String, J)>::new(), 0u64),
        |st, c: &Case| {
            let path = st.0.path("g.usage");
            std::fs::write(&path, &c.text).unwrap();
            let p = path.to_string_lossy().to_string();
            let inv = Invocation::new(vec![format!("--{}", c.target), "/dev/null".into(), p.clone()]);
            let r = binrun::run(&inv, &st.0);
            let stderr = String::from_utf8_lossy(&r.stderr).to_string();
            let detail = |why: &str| J::obj(vec![("kind", J::s(c.kind)), ("text", J::s(&c.text)), ("why", J::s(why)), ("stderr", J::s(stderr.chars().take(1500).collect::<String>())), ("outcome", J::s(r.describe())), ("level", J::s("binary (stderr)"))]);
            let want_status = if c.warning.is_some() { 0 } else { 1 };
            if r.status != Some(want_status) {
                st.1.push((format!("wrong-status-{}", c.kind), format!("{} diagnostic: binary {} (expected exit {want_status})", c.kind, r.describe()), detail("status")));
                return;
            }
            let (locs, snippets) = stderr_locations(&stderr, &p);
            if let Err(why) = compare(c, &locs) {
                st.1.push((format!("wrong-location-{}", c.kind), format!("{} diagnostic as printed: {why}", c.kind), detail(&why)));
                return;
            }
            // the source line shown under each location is that line of the input
            let lines: Vec<&str> = c.text.lines().collect();
            for (n, src) in &snippets {
                let real = lines.get(n - 1).copied().unwrap_or("<no such line>");
                if real != src {
                    st.1.push((format!("wrong-snippet-{}", c.kind), format!("{} diagnostic shows line {n} as {src:?}, the file has {real:?}", c.kind), detail("snippet")));
                    return;
                }
            }
            if snippets.len() < locs.len() {
                st.1.push((format!("missing-snippet-{}", c.kind), format!("{} diagnostic: {} locations but {} source lines shown", c.kind, locs.len(), snippets.len()), detail("snippet count")));
                return;
            }
            if let Some(w) = c.warning {
                if !stderr.contains(&format!("warning: {w}")) {
                    st.1.push((format!("wrong-label-{}", c.kind), format!("{} diagnostic lacks the label `warning: {w}`", c.kind), detail("label")));
                    return;
                }
            }
            st.2 += 1;
        },
    );
    let mut bin_ok = 0u64;
    for (_, v, ok) in results {
        bin_ok += ok;
        for x in v {
            rep.violation(&x.0, x.1, x.2);
        }
    }
    rep.cov("evaluations", J::i((all.len() + nbin) as i64));
    rep.cov("distinct_nontrivial", J::i(distinct.len() as i64));
    rep.cov("library_level_placements", J::i(all.len() as i64));
    rep.cov("library_level_ok", J::i(lib_ok as i64));
    rep.cov("binary_runs", J::i(nbin as i64));
    rep.cov("binary_ok", J::i(bin_ok as i64));
    rep.cov("placements_per_diagnostic_kind", J::Obj(per_kind.iter().map(|(k, v)| (k.to_string(), J::i(*v as i64))).collect()));
    rep.cov(
        "rule",
        J::s(format!(
            "exhaustive placement: 14 diagnostic kinds (undefined, unused, unused specialization, duplicate + previous definition (plain and shell-specific), unknown shell, varying command names, invalid command name, spaces inside a word (left/right/reference site, also with the left literal carrying escapes), non-command specialization, placeholder + follower, cycle, parse error) x {} preceding-line menus x {} same-statement prefixes (every backslash escape, dots, described literal, word, repetition) x {} separators (spaces, tab, newline + indent, comment, blank line). Level L: all placements, spans of the returned Error / warning maps vs the planted byte offset (line, start column, end column). Level B: {} (stderr `path:L:C:` prefixes in print order and the source line shown). distinct = distinct input texts.",
            PRE.len(),
            HEAD.len(),
            SEP.len(),
            if tier == Tier::Thorough { "all placements" } else { "every slot value at least once per kind" }
        )),
    );
    rep.cov("exhaustive", J::Bool(true));
    rep.cov("samples", J::Arr(samples.items));
    rep.assume("columns are 1-based byte columns; no non-ASCII text precedes a planted token on its own line");
    rep
}
