//! C17 — external commands run only when expected, with the documented arguments and output.

use crate::ast::{Stmt, E, G};
use crate::bashrun::{probe_cmd, ProbeDef};
use crate::binrun::Scratch;
use crate::enumr::{Enumerator, Vocab};
use crate::fam::{call, def, spec};
use crate::json::J;
use crate::report::{Report, Samples, Tier};
use crate::traces::{probes_of, run_grammar_opts, RunError};
use std::collections::{BTreeMap, BTreeSet};

fn probes() -> Vec<ProbeDef> {
    vec![
        ProbeDef { id: "1".into(), lines: vec!["pa".into(), "pb\tdescr of pb".into()] },
        ProbeDef { id: "2".into(), lines: vec!["qa".into(), "qab".into()] },
        // candidates with a blank, with a tab-separated description, and a longer twin
        ProbeDef { id: "4".into(), lines: vec!["sp ace".into(), "tb\twith descr".into(), "sp".into()] },
        ProbeDef { id: "5".into(), lines: vec![] },
        // candidates that look like options of `echo`
        ProbeDef { id: "6".into(), lines: vec!["-n".into(), "-e".into(), "-E".into(), "-ne".into(), "-x".into()] },
        // a candidate of two-digit length and a short one that is a proper prefix of it
        ProbeDef { id: "7".into(), lines: vec!["abc".into(), "abcdefghijkl".into(), "other".into()] },
        // a description that itself contains a tab; a candidate made of two words
        ProbeDef { id: "8".into(), lines: vec!["alpha\tfirst letter\tGreek".into(), "gamma ray\tdescr".into(), "foo".into(), "bar".into()] },
    ]
}

fn p(id: &str) -> E {
    E::cmd(&probe_cmd(id))
}

pub fn family(tier: Tier, f: &mut dyn FnMut(G)) {
    let lit = E::lit;
    // probes at every position of every small tree
    let v = Vocab { descrs: vec![], ..Vocab::basic(vec![lit("a"), p("1"), p("2")]) };
    let en = Enumerator::new(v, 3);
    en.for_each_upto(tier.pick(2, 3), &mut |e| {
        if e.any(|x| matches!(x, E::Cmd(_))) {
            if tier == Tier::Thorough {
                f(call(e.clone()));
            }
            f(call(E::Seq(vec![e.clone(), lit("t")])));
        }
    });
    // inside words: tail, middle (after a literal prefix), optional, repeated
    for w in [
        E::Word(vec![lit("--u="), p("1")]),
        E::Word(vec![lit("--u="), p("1"), lit(",x")]),
        E::Word(vec![lit("k"), E::Opt(Box::new(lit("="))), p("2")]),
        E::Word(vec![lit("r="), p("1"), E::Opt(Box::new(E::Seq(vec![lit(":"), p("2")])))]),
        E::Word(vec![lit("m="), E::Alt(vec![lit("lit"), p("1")])]),
        E::Word(vec![lit("f="), E::Fb(vec![p("1"), p("2")])]),
    ] {
        f(call(E::Seq(vec![w.clone(), lit("t")])));
        if tier == Tier::Thorough {
            f(call(w.clone()));
            f(call(E::Alt(vec![w.clone(), p("2")])));
        }
    }
    // fallbacks between commands, literals and words
    for (x, y) in [(p("1"), p("2")), (lit("a"), p("1")), (p("1"), lit("a")), (p("5"), p("1")), (E::Word(vec![lit("w="), p("2")]), p("1")), (p("1"), E::Word(vec![lit("w="), p("2")]))] {
        f(call(E::Seq(vec![E::Fb(vec![x.clone(), y.clone()]), lit("t")])));
        if tier == Tier::Thorough {
            f(call(E::Fb(vec![x.clone(), y.clone()])));
            f(call(E::Alt(vec![x.clone(), y.clone()])));
        }
    }
    // through definitions and shell-specific definitions
    f(G { stmts: vec![Stmt::Call { name: "cmd".into(), expr: E::Seq(vec![E::r("X"), lit("t")]) }, def("X", p("1"))] });
    f(G { stmts: vec![Stmt::Call { name: "cmd".into(), expr: E::Seq(vec![E::r("X"), lit("t")]) }, spec("X", "bash", &probe_cmd("1")), spec("X", "fish", &probe_cmd("2"))] });
    f(G { stmts: vec![Stmt::Call { name: "cmd".into(), expr: E::Word(vec![lit("--x="), E::r("X")]) }, spec("X", "bash", &probe_cmd("2")), def("X", p("1"))] });
    f(G { stmts: vec![Stmt::Call { name: "cmd".into(), expr: E::Fb(vec![lit("o"), E::r("Y")]) }, def("Y", E::Alt(vec![lit("y"), E::r("X")])), spec("X", "bash", &probe_cmd("1"))] });
    // candidates with blanks and tab-separated descriptions
    f(call(E::Seq(vec![p("4"), lit("t")])));
    f(call(E::Seq(vec![E::Word(vec![lit("s="), p("4")]), lit("t")])));
    f(call(E::Alt(vec![p("4"), lit("spx")])));
    // only the text before the FIRST tab is the candidate; a candidate with a blank is one word
    f(call(E::Seq(vec![E::Word(vec![lit("--opt="), p("8")]), lit("next")])));
    f(call(E::Seq(vec![p("8"), lit("next"), lit("end")])));
    // lengths of 3 and 12: the longest candidate must be tried first
    f(call(E::Seq(vec![E::Word(vec![lit("--opt="), p("7")]), lit("t")])));
    f(call(E::Seq(vec![p("7"), lit("t")])));
    // two different commands one after the other (a word matching the first one's candidates only)
    f(call(E::Seq(vec![p("1"), p("2"), lit("t")])));
    f(call(E::Seq(vec![E::Word(vec![p("1"), lit(".."), p("2")]), lit("t")])));
    // candidates that a careless `echo` would swallow
    f(call(E::Seq(vec![p("6"), lit("t")])));
    f(call(E::Seq(vec![E::Word(vec![lit("o="), p("6")]), lit("t")])));
    // a literal-only word whose tables have the shape of a word with the second command
    f(call(E::Alt(vec![p("1"), E::Word(vec![lit("--level"), E::Opt(Box::new(lit("=high")))]), E::Word(vec![lit("--user="), p("2")])])));
    f(call(E::Alt(vec![p("1"), E::Word(vec![lit("--user="), p("2")]), E::Word(vec![lit("--level"), E::Opt(Box::new(lit("=high")))])])));
    // a word with a command, a word without, and a top-level command (shared tables)
    f(call(E::Seq(vec![E::Alt(vec![E::Word(vec![lit("--color="), E::Alt(vec![lit("always"), lit("never")])]), E::Word(vec![lit("--file="), p("2")])]), p("1")])));
    f(call(E::Seq(vec![p("1"), E::Alt(vec![E::Word(vec![lit("--c="), E::Alt(vec![lit("x"), lit("y")])]), E::Word(vec![lit("--f="), p("2")])])])));
}

pub fn run(tier: Tier) -> Report {
    let mut rep = Report::new("C17", tier, "model_checking");
    let defs = probes();
    let pr = probes_of(&defs);
    let depth = tier.pick(2, 3);
    let lean = tier == Tier::Quick;
    let mut grammars: Vec<G> = vec![];
    let mut seen = BTreeSet::new();
    family(tier, &mut |g| {
        if seen.insert(crate::ast::print_grammar(&g)) {
            grammars.push(g)
        }
    });
    let total = grammars.len();
    let scratch = Scratch::new("c17");
    let mut states = 0u64;
    let mut transitions = 0u64;
    let mut traces = 0u64;
    let mut log_checked = 0u64;
    let mut replayed = 0u64;
    let mut probe_runs = 0u64;
    let mut rejected: BTreeMap<String, u64> = BTreeMap::new();
    let mut outcomes: BTreeSet<u64> = BTreeSet::new();
    let mut samples = Samples::new(10);
    // words that are pieces or concatenations of candidates (never candidates themselves)
    for g in &grammars {
        // (only where a probe with such candidates is used: every extra word multiplies the traces)
        let text_g = crate::ast::print_grammar(g);
        let extra: Vec<String> = if text_g.contains("__p 8 ") {
            vec!["gamma".into(), "ray".into(), "foo bar".into(), "alpha\tfirst letter".into()]
        } else if text_g.contains("__p 4 ") {
            vec!["ace".into(), "tb sp".into()]
        } else {
            vec![]
        };
        crate::traces::EXTRA_WORDS.with(|w| *w.borrow_mut() = extra);
        match run_grammar_opts(g, &defs, &pr, depth, tier.pick(300, 1500), false, lean, true, &scratch) {
            Ok(run) => {
                replayed += 1;
                states += run.exploration.states;
                transitions += run.exploration.transitions;
                traces += run.validated;
                log_checked += run.log_checked;
                outcomes.extend(run.outcomes.iter().copied());
                for a in &run.answers {
                    probe_runs += a.log.len() as u64;
                }
                if let Some((t, a)) = run.exploration.traces.iter().zip(run.answers.iter()).find(|(_, a)| a.log.len() >= 2) {
                    samples.offer(|| J::obj(vec![("grammar", J::s(run.text.trim_end())), ("words", J::arr_s(t.path.iter().cloned())), ("cursor", J::s(&t.cursor)), ("probe_log", J::arr_s(a.log.iter().cloned())), ("compreply", J::arr_s(a.replies.iter().cloned()))]));
                }
                for m in run.mismatches {
                    rep.violation(&m.key, m.summary, m.detail);
                }
            }
            Err(RunError::Rejected(k)) => *rejected.entry(k).or_default() += 1,
            Err(RunError::Excluded(_)) => {}
            Err(RunError::Machinery(m)) => {
                eprintln!("machinery failure: {m}");
                std::process::exit(2);
            }
            Err(RunError::Violation(m)) => rep.violation(&m.key, m.summary, m.detail),
        }
    }
    rep.cov("states", J::i(states as i64));
    rep.cov("transitions", J::i(transitions as i64));
    rep.cov("traces_validated_against_impl", J::i(traces as i64));
    rep.cov("traces_with_probe_log_checked", J::i(log_checked as i64));
    rep.cov("probe_invocations_observed", J::i(probe_runs as i64));
    rep.cov("grammars_enumerated", J::i(total as i64));
    rep.cov("grammars_replayed_in_bash", J::i(replayed as i64));
    rep.cov("rejected_by_complgen", J::Obj(rejected.iter().map(|(k, v)| (k.clone(), J::i(*v as i64))).collect()));
    rep.cov("distinct_observed_outcomes", J::i(outcomes.len() as i64));
    rep.cov(
        "rule",
        J::s(format!(
            "every {{{{{{ }}}}}} is a probe `__p <id> \"$@\"` that logs id|#args|$1|$2 and prints fixed lines (incl. a candidate with a blank, one with a TAB description, an empty output). Family: probes at every position of every tree <= {} nodes over {{a, probe1, probe2}} (alone and followed by a word); inside words at the tail, in the middle, optional, under | and ||; `||` between commands/literals/words; through plain and @bash/@fish definitions; a word with a command + a word without + a top-level command. Model exploration and bash replay as C01 (depth {depth}); oracle: COMPREPLY per R7, completion-phase probe calls exactly those expected at the reached state on the levels tried with ($1,$2) = (typed prefix, \"\") at top level and (unconsumed rest, consumed part) inside a word; every other logged call must be a matching-phase call expected at the state of an earlier word with (\"\",\"\") resp. (rest, consumed).",
            tier.pick(2, 3)
        )),
    );
    rep.cov("samples", J::Arr(samples.items));
    rep.assume("probe log order is not used; only the multiset of calls");
    rep.assume("traces whose COMPREPLY deviates by a listed C01 known finding are reported under C17 with the same keys");
    rep
}
