//! C07 — text taken from the grammar reaches the shell verbatim and inert.
//! Level L: every string of the bounded space, as top-level literal, as literal inside a word
//! and as description, is emitted for four shells and decoded back with that shell's double-quote
//! rules.  Level B: packed into grammars, executed in a real bash (bash -n, exact candidates,
//! a literal is matched only by the identical word, canary untouched).

use crate::ast::{print_grammar, E, G};
use crate::binrun::Scratch;
use crate::fam::call;
use crate::json::J;
use crate::pipe::{self, Outcome, SHELLS};
use crate::props::c04::sh_of;
use crate::report::{Report, Samples, Tier};
use crate::shells::{self, Sh};
use crate::traces::{run_grammar_opts, std_probes, RunError};
use std::collections::BTreeSet;

fn full_alphabet() -> Vec<char> {
    let mut v: Vec<char> = "a0!#$%&'*+,-/:=?@^_`~".chars().collect();
    v.extend(crate::ast::ESCAPABLE.iter());
    v
}

fn hot_alphabet() -> Vec<char> {
    "\\\"$`!*?[]~#&(){};|<>'a".chars().collect()
}

fn strings(alpha: &[char], n: usize, f: &mut dyn FnMut(String)) {
    fn rec(alpha: &[char], n: usize, cur: &mut String, f: &mut dyn FnMut(String)) {
        if !cur.is_empty() {
            f(cur.clone());
        }
        if cur.chars().count() == n {
            return;
        }
        for c in alpha {
            cur.push(*c);
            rec(alpha, n, cur, f);
            cur.pop();
        }
    }
    rec(alpha, n, &mut String::new(), f);
}

fn space(tier: Tier) -> Vec<String> {
    let mut set: BTreeSet<String> = BTreeSet::new();
    strings(&full_alphabet(), 2, &mut |s| {
        set.insert(s);
    });
    strings(&hot_alphabet(), tier.pick(3, 4), &mut |s| {
        set.insert(s);
    });
    set.into_iter().collect()
}

#[derive(Default)]
struct Acc {
    evals: u64,
    decoded_ok: u64,
    viol: Vec<(String, String, J)>,
    machinery: Vec<String>,
    samples: Option<Samples>,
}

fn check_decoded(acc: &mut Acc, g: &G, what: &str, s: &str, want_literals: &BTreeSet<String>, want_descr: Option<&str>) {
    let text = print_grammar(g);
    for (shell, sn) in SHELLS {
        acc.evals += 1;
        let c = match pipe::compile(&text, shell) {
            Outcome::Ok(c) => c,
            Outcome::Err(e) => {
                acc.viol.push((format!("rejected-{what}"), format!("grammar with {what} {s:?} is rejected for --{sn}: {}", pipe::error_kind(&e)), J::obj(vec![("grammar", J::s(&text)), ("shell", J::s(sn))])));
                return;
            }
            Outcome::Panic(p) => {
                acc.viol.push(("crash".into(), format!("panic: {p}"), J::obj(vec![("grammar", J::s(&text))])));
                return;
            }
        };
        let bytes = match pipe::emit(&c, shell) {
            Ok(b) => b,
            Err(e) => {
                acc.viol.push(("crash".into(), format!("emitter: {e}"), J::obj(vec![("grammar", J::s(&text))])));
                continue;
            }
        };
        let script_text = String::from_utf8_lossy(&bytes).to_string();
        let detail = |why: &str| J::obj(vec![("grammar", J::s(&text)), ("shell", J::s(sn)), ("string", J::s(s)), ("placement", J::s(what)), ("why", J::s(why)), ("reproduce", J::s(format!("complgen --{sn} - FILE | grep -n literals")))]);
        let script = match shells::read(sh_of(shell), &script_text, &c.command) {
            Ok(sc) => sc,
            Err(e) => {
                if e.contains("would expand") || e.contains("would run") || e.contains("unterminated") || e.contains("closes a PowerShell") || e.contains("would be expanded") || e.contains("expected") {
                    acc.viol.push((format!("constant-not-inert-{sn}"), format!("--{sn}: {what} {s:?}: {e}"), detail(&e)));
                } else {
                    acc.machinery.push(format!("{sn}: {e} ({text:?})"));
                }
                continue;
            }
        };
        let mut got: BTreeSet<String> = script.main.literals.iter().cloned().collect();
        for t in script.subs.values() {
            got.extend(t.literals.iter().cloned());
        }
        if &got != want_literals {
            let missing: Vec<&String> = want_literals.difference(&got).collect();
            let extra: Vec<&String> = got.difference(want_literals).collect();
            acc.viol.push((format!("literal-not-verbatim-{sn}"), format!("--{sn}: {what} {s:?} is read back wrongly: missing {missing:?}, unexpected {extra:?}"), detail("literal set differs")));
            continue;
        }
        if let Some(d) = want_descr {
            if sh_of(shell) != Sh::Bash {
                let mut ds: BTreeSet<String> = script.main.descr.values().cloned().collect();
                for t in script.subs.values() {
                    ds.extend(t.descr.values().cloned());
                }
                let want: BTreeSet<String> = if d.is_empty() { BTreeSet::new() } else { BTreeSet::from([d.to_string()]) };
                if ds != want {
                    acc.viol.push((format!("description-not-verbatim-{sn}"), format!("--{sn}: description {d:?} is read back as {ds:?}"), detail("description differs")));
                    continue;
                }
            }
        }
        acc.decoded_ok += 1;
        if let Some(sm) = acc.samples.as_mut() {
            sm.offer(|| J::obj(vec![("placement", J::s(what)), ("string", J::s(s)), ("shell", J::s(sn)), ("grammar", J::s(text.trim_end()))]));
        }
    }
}

fn work(acc: &mut Acc, s: String) {
    let lit = E::lit;
    let set = |v: &[&str]| v.iter().map(|x| x.to_string()).collect::<BTreeSet<String>>();
    if !s.starts_with('#') {
        // (i) top-level literal
        let g = call(E::Seq(vec![E::Alt(vec![lit(&s), lit("zz1")]), lit("t")]));
        check_decoded(acc, &g, "top-level literal", &s, &set(&[&s, "zz1", "t"]), None);
        // (ii) inside a word after a literal prefix
        let g = call(E::Seq(vec![E::Word(vec![lit("x="), E::Alt(vec![lit(&s), lit("zz2")])]), lit("t")]));
        check_decoded(acc, &g, "literal inside a word", &s, &set(&["x=", &s, "zz2", "t"]), None);
    }
    // (ii') inside a word after a command (the only place a literal may start with '#')
    let g = call(E::Word(vec![E::cmd("echo p"), lit(&s)]));
    check_decoded(acc, &g, "literal inside a word after a command", &s, &set(&[&s]), None);
}

fn work_descr(acc: &mut Acc, d: String) {
    let g = call(E::Alt(vec![E::litd("foo", &d), E::lit("bar")]));
    let set: BTreeSet<String> = ["foo", "bar"].iter().map(|x| x.to_string()).collect();
    check_decoded(acc, &g, "description", &d, &set, Some(&d));
    let g = call(E::Word(vec![E::lit("k="), E::Alt(vec![E::litd("v", &d), E::lit("w")])]));
    let set: BTreeSet<String> = ["k=", "v", "w"].iter().map(|x| x.to_string()).collect();
    check_decoded(acc, &g, "description inside a word", &d, &set, Some(&d));
}

/// replace one glob-significant character by a plain one / drop a backslash: near misses
fn near_misses(l: &str) -> Vec<String> {
    let cs: Vec<char> = l.chars().collect();
    let mut out = vec![];
    for (i, c) in cs.iter().enumerate() {
        if matches!(c, '*' | '?' | '[' | ']' | '\\') {
            for r in ['b', 'a'] {
                let mut v = cs.clone();
                v[i] = r;
                out.push(v.iter().collect::<String>());
            }
            let mut v = cs.clone();
            v.remove(i);
            if !v.is_empty() {
                out.push(v.iter().collect());
            }
            let mut v = cs.clone();
            v.insert(i + 1, 'b');
            out.push(v.iter().collect());
        }
    }
    out
}

pub fn run(tier: Tier) -> Report {
    let mut rep = Report::new("C07", tier, "exploration");
    let n = crate::par::nthreads();
    let all = space(tier);
    let nstrings = all.len();
    // descriptions: the same strings plus blanks and newlines
    let mut descrs: Vec<String> = vec![];
    let dalpha: Vec<char> = "\\\"$`!*' \n\t;#a\u{e9}\u{201c}".chars().collect();
    strings(&dalpha, tier.pick(2, 3), &mut |s| descrs.push(s));
    descrs.extend(all.iter().filter(|s| s.chars().count() <= 2).cloned());
    let ndescr = descrs.len();
    let accs = crate::par::run(
        n,
        |push| {
            for s in all.iter() {
                push((false, s.clone()));
            }
            for d in descrs.iter() {
                push((true, d.clone()));
            }
        },
        || Acc { samples: Some(Samples::new(2)), ..Default::default() },
        |acc, (is_descr, s): (bool, String)| {
            if is_descr {
                work_descr(acc, s)
            } else {
                work(acc, s)
            }
        },
    );
    let mut t = Acc { samples: Some(Samples::new(10)), ..Default::default() };
    for a in accs {
        t.evals += a.evals;
        t.decoded_ok += a.decoded_ok;
        t.viol.extend(a.viol);
        t.machinery.extend(a.machinery);
        if let (Some(x), Some(s)) = (t.samples.as_mut(), a.samples) {
            x.merge(s);
        }
    }
    if let Some(m) = t.machinery.first() {
        eprintln!("machinery failure: {m}");
        std::process::exit(2);
    }
    for (k, s, d) in &t.viol {
        rep.violation(k, s.clone(), d.clone());
    }

    // ---- Level B: execution in bash
    let (defs, probes) = std_probes();
    let scratch = Scratch::new("c07");
    let mut exec_strings: BTreeSet<String> = BTreeSet::new();
    strings(&full_alphabet(), 1, &mut |s| {
        exec_strings.insert(s);
    });
    let small_hot: Vec<char> = "\\\"$`*?[]'a".chars().collect();
    strings(&small_hot, 2, &mut |s| {
        exec_strings.insert(s);
    });
    if tier == Tier::Thorough {
        strings(&full_alphabet(), 2, &mut |s| {
            exec_strings.insert(s);
        });
        strings(&small_hot, 3, &mut |s| {
            exec_strings.insert(s);
        });
    }
    let exec: Vec<String> = exec_strings.into_iter().filter(|s| !s.starts_with('#')).collect();
    let per = 24usize;
    let mut bash_traces = 0u64;
    let mut bash_grammars = 0u64;
    let mut syntax_checked = 0u64;
    for (ci, chunk) in exec.chunks(per).enumerate() {
        for in_word in [false, true] {
            if in_word && tier == Tier::Quick && ci % 2 == 1 {
                continue;
            }
            let alt = E::Alt(chunk.iter().map(|s| E::lit(s)).collect());
            let g = if in_word { call(E::Seq(vec![E::Word(vec![E::lit("x="), alt]), E::lit("t")])) } else { call(E::Seq(vec![alt, E::lit("t")])) };
            let text = print_grammar(&g);
            // bash -n on the emitted script
            if let Outcome::Ok(c) = pipe::compile(&text, pipe::Shell::Bash) {
                if let Ok(b) = pipe::emit(&c, pipe::Shell::Bash) {
                    syntax_checked += 1;
                    if let Err(e) = crate::bashrun::syntax_ok(&b, &scratch) {
                        rep.violation("bash-syntax-error", format!("`bash -n` rejects the script emitted for `{}`: {}", text.trim_end(), e.lines().next().unwrap_or("")), J::obj(vec![("grammar", J::s(&text)), ("bash_n", J::s(e))]));
                        continue;
                    }
                }
            }
            let mut extra: Vec<String> = vec![];
            for l in chunk {
                for m in near_misses(l) {
                    extra.push(if in_word { format!("x={m}") } else { m });
                }
            }
            crate::traces::EXTRA_WORDS.with(|w| *w.borrow_mut() = extra);
            crate::traces::EMPTY_WB_STRIDE.with(|s| s.set(7));
            let r = run_grammar_opts(&g, &defs, &probes, 1, tier.pick(220, 1200), false, false, false, &scratch);
            crate::traces::EXTRA_WORDS.with(|w| w.borrow_mut().clear());
            match r {
                Ok(run) => {
                    bash_grammars += 1;
                    bash_traces += run.validated;
                    for m in run.mismatches {
                        rep.violation(&m.key, m.summary, m.detail);
                    }
                }
                Err(RunError::Machinery(m)) => {
                    // a script that bash cannot even source counts as a violation of "stays valid"
                    rep.violation("bash-cannot-source", format!("bash cannot run the script emitted for `{}`: {m}", text.trim_end()), J::obj(vec![("grammar", J::s(&text)), ("error", J::s(m))]));
                }
                Err(RunError::Violation(m)) => rep.violation(&m.key, m.summary, m.detail),
                Err(_) => {}
            }
        }
    }
    crate::traces::EMPTY_WB_STRIDE.with(|s| s.set(1));
    // ---- readline's completion-ignore-case on: matching of the typed prefix may ignore case,
    // the candidates themselves are still the grammar's text, character for character
    let mut ic_traces = 0u64;
    {
        let lits_top = ["--Verbose", "--verbose-x", "ABC", "abd", "Mi$X", "mIx"];
        let lits_in = ["Alpha", "alpine", "BETA", "beta"];
        let gs = [
            (false, call(E::Seq(vec![E::Alt(lits_top.iter().map(|l| E::lit(l)).collect()), E::lit("t")]))),
            (true, call(E::Seq(vec![E::Word(vec![E::lit("x="), E::Alt(lits_in.iter().map(|l| E::lit(l)).collect())]), E::lit("t")]))),
        ];
        for (in_word, g) in gs {
            let text = print_grammar(&g);
            let Outcome::Ok(c) = pipe::compile(&text, pipe::Shell::Bash) else { continue };
            let Ok(script) = pipe::emit(&c, pipe::Shell::Bash) else { continue };
            let texts: Vec<String> = if in_word { lits_in.iter().map(|l| format!("x={l}")).collect() } else { lits_top.iter().map(|l| l.to_string()).collect() };
            let mut queries = vec![];
            let mut typed: Vec<String> = vec![String::new()];
            for t_ in &texts {
                let cs: Vec<char> = t_.chars().collect();
                for n in 1..=cs.len() {
                    let p: String = cs[..n].iter().collect();
                    typed.push(p.clone());
                    typed.push(p.to_uppercase());
                    typed.push(p.to_lowercase());
                }
            }
            typed.sort();
            typed.dedup();
            if in_word {
                // the part of the word before the values is matched as written
                typed.retain(|p| p.is_empty() || p.starts_with("x=") || "x=".starts_with(p.as_str()));
            }
            for p in &typed {
                queries.push(crate::bashrun::Query { words: vec![p.clone()], default_wordbreaks: false });
            }
            crate::bashrun::IGNORE_CASE.with(|c| c.set(true));
            let batch = crate::bashrun::run_batch(&script, "cmd", &[], &queries, &scratch);
            crate::bashrun::IGNORE_CASE.with(|c| c.set(false));
            if let Some(f) = batch.failed {
                eprintln!("machinery: ignore-case batch failed: {f}");
                std::process::exit(2);
            }
            for (q, a) in queries.iter().zip(batch.answers.iter()) {
                ic_traces += 1;
                let p = &q.words[0];
                let replies: BTreeSet<String> = a.replies.iter().map(|r| r.strip_suffix(' ').unwrap_or(r).to_string()).collect();
                let detail = || J::obj(vec![("grammar", J::s(&text)), ("typed", J::s(p)), ("compreply", J::arr_s(a.replies.iter().cloned())), ("mode", J::s("completion-ignore-case on"))]);
                // inside a word the first thing offered is the first item `x=`
                if in_word && p.len() < 2 {
                    if replies != BTreeSet::from(["x=".to_string()]) {
                        rep.violation("candidate-not-verbatim-ignore-case", format!("with completion-ignore-case on, `cmd {p}<TAB>` offers {replies:?} instead of \"x=\" (grammar `{}`)", text.trim_end()), detail());
                    }
                    continue;
                }
                if let Some(bad) = replies.iter().find(|r| !texts.contains(r)) {
                    rep.violation("candidate-not-verbatim-ignore-case", format!("with completion-ignore-case on, `cmd {p}<TAB>` offers {bad:?}, which is not the text of any literal of `{}`", text.trim_end()), detail());
                    continue;
                }
                if let Some(miss) = texts.iter().find(|t_| t_.starts_with(p.as_str()) && t_.as_str() != p.as_str() && !replies.contains(*t_)) {
                    rep.violation("candidate-missing-ignore-case", format!("with completion-ignore-case on, `cmd {p}<TAB>` does not offer {miss:?} (grammar `{}`)", text.trim_end()), detail());
                }
            }
        }
    }
    bash_traces += ic_traces;
    rep.cov("bash_traces_with_ignore_case_on", J::i(ic_traces as i64));
    rep.cov("evaluations", J::i((t.evals + bash_traces) as i64));
    rep.cov("distinct_nontrivial", J::i((nstrings + ndescr) as i64));
    rep.cov("literal_strings", J::i(nstrings as i64));
    rep.cov("description_strings", J::i(ndescr as i64));
    rep.cov("string_x_placement_x_shell_decoded_ok", J::i(t.decoded_ok as i64));
    rep.cov("bash_grammars_executed", J::i(bash_grammars as i64));
    rep.cov("bash_scripts_syntax_checked", J::i(syntax_checked as i64));
    rep.cov("bash_traces", J::i(bash_traces as i64));
    rep.cov(
        "rule",
        J::s(format!(
            "exhaustive strings: all strings of length <= 2 over the {} characters the terminal lexer admits (incl. all 13 escapes) and all strings of length <= {} over the hot set {:?}; each as top-level literal, as literal inside a word after `x=`, as literal inside a word after a command (the only place a literal may start with #); descriptions: all strings of length <= {} over {:?} plus the short literal strings, at top level and inside a word. Per string x placement x 4 shells the emitted script is read back by the shell's reader/decoder: the decoder fails on an unterminated constant or an unescaped $ / backquote, and the decoded literal set and description must equal what was written. Level B (bash): strings packed {per} per grammar as `cmd (l1|...) t` and `cmd x=(l1|...) t`: `bash -n`, then model exploration of depth 1 with all prefixes of all literals as cursor words and, as earlier words, every literal and every near miss (one glob-significant character replaced, dropped or extended): exact candidates, a word moves on to `t` iff it is identical to a literal, canary file and variable untouched; with `bind -v` answering completion-ignore-case on: for two mixed-case grammars every prefix of every literal as typed, upper-cased and lower-cased: every candidate is verbatim a literal and every literal extending the typed text as typed is offered. distinct = distinct strings.",
            full_alphabet().len(),
            tier.pick(3, 4),
            hot_alphabet(),
            tier.pick(2, 3),
            dalpha
        )),
    );
    rep.cov("exhaustive", J::Bool(true));
    rep.cov("samples", J::Arr(t.samples.map(|s| s.items).unwrap_or_default()));
    rep.assume("double-quote rules per shell as implemented in harness/src/shells.rs::decode_dq (bash/zsh: \\ escapes $ ` \" \\ newline; fish: \\ escapes $ \" \\ newline; PowerShell: backtick escapes, doubled quote, typographic quotes close a string)");
    rep
}
