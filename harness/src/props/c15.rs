//! C15 — warnings are complete, precise and harmless (Level L: the three maps of ValidGrammar).

use crate::ast::{print_grammar, Stmt, E, G};
use crate::json::J;
use crate::pipe::{self, Outcome, Shell, SHELLS};
use crate::r8;
use crate::report::{Report, Samples, Tier};
use complgen::parse::HumanSpan;
use std::collections::BTreeSet;

#[derive(Default)]
pub struct Acc {
    evals: u64,
    distinct: BTreeSet<u64>,
    outcomes: BTreeSet<String>,
    viol: Vec<(String, String, J)>,
    samples: Option<Samples>,
}

fn span_text<'a>(text: &'a str, sp: &HumanSpan) -> Option<&'a str> {
    let line = text.lines().nth(sp.line.checked_sub(1)?)?;
    line.get(sp.column_start.checked_sub(1)?..sp.column_end.checked_sub(1)?)
}

pub fn check(acc: &mut Acc, g: &G, shell: Shell) {
    let text = print_grammar(g);
    let sn = pipe::shell_name(shell);
    acc.evals += 1;
    acc.distinct.insert(crate::report::fnv(&format!("{text}{sn}")));
    let c = match pipe::compile(&text, shell) {
        Outcome::Ok(c) => c,
        Outcome::Err(e) => {
            acc.viol.push((
                "rejected".into(),
                format!("grammar of the warnings family is rejected for --{sn}: {}", pipe::error_kind(&e)),
                J::obj(vec![("grammar", J::s(&text)), ("shell", J::s(sn))]),
            ));
            return;
        }
        Outcome::Panic(p) => {
            acc.viol.push(("crash".into(), format!("panic: {p}"), J::obj(vec![("grammar", J::s(&text)), ("shell", J::s(sn))])));
            return;
        }
    };
    let want = r8::warnings(g, shell);
    let got = r8::Warnings {
        undefined: c.undefined.iter().map(|(n, _)| n.clone()).collect(),
        unused: c.unused.iter().map(|(n, _)| n.clone()).collect(),
        unused_specs: c.unused_specs.iter().map(|(n, _)| n.clone()).collect(),
    };
    let detail = |what: &str| {
        J::obj(vec![
            ("grammar", J::s(&text)),
            ("shell", J::s(sn)),
            ("expected", J::s(format!("{want:?}"))),
            ("observed", J::s(format!("{got:?}"))),
            ("what", J::s(what)),
            ("reproduce", J::s(format!("printf '%s' '{}' | complgen --{sn} /dev/null -", text.replace('\'', "'\\''")))),
        ])
    };
    for (kind, w, g_) in [("undefined", &want.undefined, &got.undefined), ("unused", &want.unused, &got.unused), ("unused-specialization", &want.unused_specs, &got.unused_specs)] {
        if let Some(m) = w.difference(g_).next() {
            acc.viol.push((format!("missing-{kind}-warning"), format!("no `{kind}` warning about <{m}> for --{sn}"), detail("missing")));
        }
        if let Some(m) = g_.difference(w).next() {
            acc.viol.push((format!("spurious-{kind}-warning"), format!("spurious `{kind}` warning about <{m}> for --{sn}"), detail("spurious")));
        }
    }
    // each at a place where the offending name occurs
    for (kind, list) in [("undefined", &c.undefined), ("unused", &c.unused), ("unused-specialization", &c.unused_specs)] {
        for (name, sp) in list {
            let t = span_text(&text, sp).unwrap_or("<out of range>");
            let ok = t == format!("<{name}>") || t == format!("<{name}@{sn}>");
            if !ok {
                acc.viol.push((
                    format!("warning-span-{kind}"),
                    format!("`{kind}` warning about <{name}> points at {}:{}-{} = {t:?}", sp.line, sp.column_start, sp.column_end),
                    detail("span"),
                ));
            }
        }
    }
    // harmless: same bytes as the grammar without the definitions warned about / other shells
    let drop: Vec<bool> = g
        .stmts
        .iter()
        .map(|s| match s {
            Stmt::Def { name, shell: None, .. } => want.unused.contains(name),
            Stmt::Def { name, shell: Some(sh), .. } => sh != sn || want.unused_specs.contains(name),
            _ => false,
        })
        .collect();
    if drop.iter().any(|d| *d) {
        let g2 = G { stmts: g.stmts.iter().zip(&drop).filter(|(_, d)| !**d).map(|(s, _)| s.clone()).collect() };
        let t2 = print_grammar(&g2);
        acc.evals += 1;
        match pipe::compile(&t2, shell) {
            Outcome::Ok(c2) => {
                let a = pipe::emit(&c, shell);
                let b = pipe::emit(&c2, shell);
                if a != b {
                    acc.viol.push((
                        "unused-definition-changes-script".into(),
                        format!("deleting the definitions that are unused for --{sn} changes the emitted script"),
                        J::obj(vec![("grammar", J::s(&text)), ("reduced", J::s(&t2)), ("shell", J::s(sn))]),
                    ));
                }
            }
            _ => acc.viol.push((
                "unused-definition-changes-verdict".into(),
                format!("deleting the definitions that are unused for --{sn} changes the verdict"),
                J::obj(vec![("grammar", J::s(&text)), ("reduced", J::s(&t2)), ("shell", J::s(sn))]),
            )),
        }
    }
    let sig = format!("{}/{}/{}", want.undefined.len(), want.unused.len(), want.unused_specs.len());
    if acc.outcomes.insert(sig) {
        if let Some(s) = acc.samples.as_mut() {
            s.offer(|| J::obj(vec![("grammar", J::s(text.trim_end())), ("shell", J::s(sn)), ("expected_warnings", J::s(format!("{want:?}")))]));
        }
    }
}

const DEFINABLE: [&str; 3] = ["A", "B", "C"];
/// statuses: 0 none, 1 plain, 2 @bash, 3 @fish, 4 plain + @bash, 5 plain + @zsh, 6 @pwsh
const NSTATUS: usize = 7;

/// call-variant shape: optional items in a sequence (top level, inside a word, under |)
fn main_expr(refs: &[&str], style: usize) -> E {
    let mut items = vec![E::lit("w")];
    for (i, r) in refs.iter().enumerate() {
        let e = E::r(r);
        items.push(match (style + i) % 3 {
            0 => E::Opt(Box::new(e)),
            1 => E::Opt(Box::new(E::Word(vec![E::lit("k="), e]))),
            _ => E::Opt(Box::new(E::Alt(vec![E::lit("z"), e]))),
        });
    }
    E::Seq(items)
}

/// definition body that is safe to expand inside a word: alternatives only
fn body(refs: &[&str], style: usize) -> E {
    // (never a single literal: complgen rejects `j=<C>` inside a definition when <C> is one
    // literal, a juxtaposition the statement of C08 does not speak about)
    let mut items = vec![E::lit("v"), E::lit("vv")];
    for (i, r) in refs.iter().enumerate() {
        let e = E::r(r);
        items.push(match (style + i) % 2 {
            0 => e,
            _ => E::Word(vec![E::lit("j="), e]),
        });
    }
    E::Alt(items)
}

pub fn family(f: &mut dyn FnMut(G)) {
    let call_names = ["A", "B", "C", "U", "_", "PATH"];
    let body_refs: [&[&str]; 3] = [&["B", "C", "U"], &["C", "DIRECTORY"], &["U"]];
    for st in 0..NSTATUS.pow(3) {
        let status = [st % NSTATUS, (st / NSTATUS) % NSTATUS, st / (NSTATUS * NSTATUS)];
        for cmask in 0..(1u32 << call_names.len()) {
            let crefs: Vec<&str> = call_names.iter().enumerate().filter(|(i, _)| cmask & (1 << i) != 0).map(|(_, n)| *n).collect();
            // bodies of plain definitions: every subset of the allowed (acyclic) references
            let n0 = if matches!(status[0], 1) { 1u32 << body_refs[0].len() } else { 1 };
            let n1 = if matches!(status[1], 1) { 1u32 << body_refs[1].len() } else { 1 };
            let n2 = if matches!(status[2], 1) { 1u32 << body_refs[2].len() } else { 1 };
            for b0 in 0..n0 {
                for b1 in 0..n1 {
                    for b2 in 0..n2 {
                        let masks = [b0, b1, b2];
                        let style = (st + cmask as usize + b0 as usize) % 3;
                        let main = if crefs.is_empty() { E::lit("only") } else { main_expr(&crefs, style) };
                        let mut stmts = vec![Stmt::Call { name: "cmd".into(), expr: main }];
                        for (i, name) in DEFINABLE.iter().enumerate() {
                            let refs: Vec<&str> = body_refs[i].iter().enumerate().filter(|(j, _)| masks[i] & (1 << j) != 0).map(|(_, n)| *n).collect();
                            match status[i] {
                                1 => stmts.push(crate::fam::def(name, body(&refs, style + i))),
                                2 => stmts.push(crate::fam::spec(name, "bash", "p_bash")),
                                3 => stmts.push(crate::fam::spec(name, "fish", "p_fish")),
                                4 => {
                                    stmts.push(crate::fam::def(name, E::cmd("p_plain")));
                                    stmts.push(crate::fam::spec(name, "bash", "p_bash"));
                                }
                                5 => {
                                    stmts.push(crate::fam::spec(name, "zsh", "p_zsh"));
                                    stmts.push(crate::fam::def(name, E::cmd("p_plain")));
                                }
                                6 => stmts.push(crate::fam::spec(name, "pwsh", "p_pwsh")),
                                _ => {}
                            }
                        }
                        if (st + cmask as usize) % 2 == 1 {
                            stmts.rotate_left(1); // call variant last
                        }
                        f(G { stmts });
                    }
                }
            }
        }
    }
}

/// the exempted names `_`, PATH and DIRECTORY as *defined* names: status x how they are referred to
pub fn special_names_family(f: &mut dyn FnMut(G)) {
    for name in ["_", "PATH", "DIRECTORY"] {
        for status in 1..NSTATUS {
            for how in 0..5 {
                let main = match how {
                    0 => E::lit("only"),
                    1 => E::Seq(vec![E::lit("w"), E::r(name)]),
                    2 => E::Seq(vec![E::lit("w"), E::Word(vec![E::lit("k="), E::r(name)])]),
                    3 => E::Seq(vec![E::lit("w"), E::r("A")]),
                    _ => E::lit("w"),
                };
                let mut stmts = vec![Stmt::Call { name: "cmd".into(), expr: main }];
                match status {
                    1 => stmts.push(crate::fam::def(name, body(&[], 0))),
                    2 => stmts.push(crate::fam::spec(name, "bash", "p_bash")),
                    3 => stmts.push(crate::fam::spec(name, "fish", "p_fish")),
                    4 => {
                        stmts.push(crate::fam::def(name, E::cmd("p_plain")));
                        stmts.push(crate::fam::spec(name, "bash", "p_bash"));
                    }
                    6 => stmts.push(crate::fam::spec(name, "pwsh", "p_pwsh")),
                    _ => {
                        stmts.push(crate::fam::spec(name, "zsh", "p_zsh"));
                        stmts.push(crate::fam::def(name, E::cmd("p_plain")));
                    }
                }
                match how {
                    3 => stmts.push(crate::fam::def("A", body(&[name], 0))),
                    // referred to only by a definition nobody uses
                    4 => stmts.push(crate::fam::def("A", body(&[name], 0))),
                    _ => {}
                }
                f(G { stmts });
            }
        }
    }
}

pub fn run(tier: Tier) -> Report {
    let mut rep = Report::new("C15", tier, "exploration");
    let shells: Vec<Shell> = SHELLS.iter().map(|(s, _)| *s).collect();
    let stride = tier.pick(1usize, 1usize);
    let n = crate::par::nthreads();
    let mut total = 0u64;
    family(&mut |_| total += 1);
    let accs = crate::par::run(
        n,
        |push| {
            let mut i = 0usize;
            family(&mut |g| {
                push((g, i));
                i += 1;
            });
            special_names_family(&mut |g| {
                push((g, i));
                i += 1;
            });
            // deep definition chains / DAGs: everything is defined and used, no warning expected
            for n in 2..=5 {
                crate::fam::def_dags(n, &mut |g| {
                    push((g, i));
                    i += 1;
                });
            }
        },
        || Acc { samples: Some(Samples::new(4)), ..Default::default() },
        |acc, (g, i): (G, usize)| {
            if stride == 1 {
                for s in &shells {
                    check(acc, &g, *s);
                }
            } else {
                check(acc, &g, shells[i % 4]);
            }
        },
    );
    let mut t = Acc { samples: Some(Samples::new(12)), ..Default::default() };
    for a in accs {
        t.evals += a.evals;
        t.distinct.extend(a.distinct);
        t.outcomes.extend(a.outcomes);
        t.viol.extend(a.viol);
        if let (Some(x), Some(s)) = (t.samples.as_mut(), a.samples) {
            x.merge(s);
        }
    }
    for (k, s, d) in &t.viol {
        rep.violation(k, s.clone(), d.clone());
    }
    // ---- Level B: what the binary prints (main.rs sorts, labels and exempts `_` itself)
    let mut bgs: Vec<G> = vec![];
    special_names_family(&mut |g| bgs.push(g));
    {
        let mut i = 0usize;
        let step = tier.pick(211usize, 23usize);
        family(&mut |g| {
            if i % step == 0 {
                bgs.push(g);
            }
            i += 1;
        });
    }
    let nb = bgs.len();
    let lib_version = crate::binrun::library_version();
    let bin_version = crate::binrun::binary_version(&crate::binrun::Scratch::new("c15v"));
    let bres = crate::par::run(
        4,
        |push| {
            for (i, g) in bgs.into_iter().enumerate() {
                push((g, i));
            }
        },
        || (crate::binrun::Scratch::new("c15"), Vec::<(String, String, J)>::new(), 0u64),
        |st, (g, i): (G, usize)| {
            let text = print_grammar(&g);
            let targets: Vec<Shell> = if i < 75 { shells.clone() } else { vec![shells[i % 4]] };
            for shell in targets {
                let sn = pipe::shell_name(shell);
                let path = st.0.path("g.usage");
                std::fs::write(&path, &text).unwrap();
                let p = path.to_string_lossy().to_string();
                let inv = crate::binrun::Invocation::new(vec![format!("--{sn}"), "-".into(), p.clone()]);
                let r = crate::binrun::run(&inv, &st.0);
                st.2 += 1;
                let stderr = String::from_utf8_lossy(&r.stderr).to_string();
                let detail = |why: &str| J::obj(vec![("grammar", J::s(&text)), ("shell", J::s(sn)), ("why", J::s(why)), ("stderr", J::s(stderr.chars().take(1200).collect::<String>())), ("outcome", J::s(r.describe())), ("level", J::s("binary"))]);
                if r.status != Some(0) {
                    st.1.push(("warning-changes-exit-status".into(), format!("--{sn}: the binary {} on a grammar that only deserves warnings", r.describe()), detail("status")));
                    continue;
                }
                // `path:L:C:warning: Label` lines, name read from the file at L:C
                let mut got: Vec<(String, String)> = vec![];
                let lines: Vec<&str> = text.lines().collect();
                for l in stderr.lines() {
                    let Some(rest) = l.strip_prefix(&format!("{p}:")) else { continue };
                    let mut it = rest.splitn(3, ':');
                    let (Some(ln), Some(col), Some(msg)) = (it.next().and_then(|x| x.parse::<usize>().ok()), it.next().and_then(|x| x.parse::<usize>().ok()), it.next()) else { continue };
                    let Some(label) = msg.strip_prefix("warning: ") else { continue };
                    let at = lines.get(ln.wrapping_sub(1)).and_then(|s| s.get(col.wrapping_sub(1)..)).unwrap_or("");
                    let name: String = at.strip_prefix('<').map(|x| x.chars().take_while(|c| *c != '>' && *c != '@').collect()).unwrap_or_else(|| format!("?{at}"));
                    got.push((label.trim().to_string(), name));
                }
                let want = r8::warnings(&g, shell);
                let mut exp: Vec<(String, String)> = vec![];
                exp.extend(want.undefined.iter().map(|n| ("Undefined".to_string(), n.clone())));
                exp.extend(want.unused.iter().map(|n| ("Unused".to_string(), n.clone())));
                exp.extend(want.unused_specs.iter().map(|n| ("Unused specialization".to_string(), n.clone())));
                let mut g2 = got.clone();
                g2.sort();
                exp.sort();
                if g2 != exp {
                    st.1.push(("binary-warnings-differ".into(), format!("--{sn}: the binary prints the warnings {g2:?}, the grammar deserves {exp:?}"), detail("warning set")));
                    continue;
                }
                // harmless: stdout is the script the library emits
                if let Outcome::Ok(c) = pipe::compile(&text, shell) {
                    if let Ok(lib) = pipe::emit(&c, shell) {
                        if crate::binrun::normalise_version(&r.stdout, &bin_version) != crate::binrun::normalise_version(&lib, &lib_version) {
                            st.1.push(("binary-script-differs".into(), format!("--{sn}: the script printed next to the warnings differs from the library's"), detail("script")));
                        }
                    }
                }
            }
        },
    );
    let mut bruns = 0u64;
    for (_, v, n) in bres {
        bruns += n;
        for (k, s_, d) in v {
            rep.violation(&k, s_, d);
        }
    }
    t.evals += bruns;
    rep.cov("binary_grammars", J::i(nb as i64));
    rep.cov("binary_runs", J::i(bruns as i64));
    rep.cov("evaluations", J::i(t.evals as i64));
    rep.cov("distinct_nontrivial", J::i(t.distinct.len() as i64));
    rep.cov("grammars_in_family", J::i(total as i64));
    rep.cov("distinct_warning_count_vectors", J::i(t.outcomes.len() as i64));
    rep.cov(
        "rule",
        J::s(format!(
            "exhaustive reference structures: names A,B,C each with status in {{undefined, plain, @bash, @fish, plain+@bash, plain+@zsh, @pwsh}} (7^3) x every subset of {{A,B,C,U,_,PATH}} referenced by the call variant (top level, inside a word, under |) x every subset of the acyclic references A->{{B,C,U}}, B->{{C,DIRECTORY}}, C->{{U}} in plain bodies x statement order; plus `_`, PATH and DIRECTORY as defined names (5 definition statuses x unreferenced / referenced at top level / inside a word / through a used / through an unused definition); plus every definition DAG on 2..5 definitions in 3 statement orders (no warning expected); targets: {}. Oracle R8 by plain reachability; per case the three warning maps, the text under every warning span, and byte-equality of the script after deleting everything warned about (and other-shell definitions). Level B: the real binary on the special-names family (all targets) and every 211th (thorough: 23rd) grammar of the main family: exit 0, the multiset of (`warning:` label, name found at the printed line:column) equals the oracle's, stdout equals the library's script. distinct = distinct (grammar text, target).",
            if stride == 1 { "all four per grammar" } else { "one per grammar, round-robin (all four per status vector)" }
        )),
    );
    rep.cov("exhaustive", J::Bool(true));
    rep.cov("samples", J::Arr(t.samples.map(|s| s.items).unwrap_or_default()));
    rep.assume("R8 warnings oracle: Undefined = reachable from the call variants through the definitions in effect, defined by nothing for the target, not _/PATH/DIRECTORY; Unused = plain definition no statement refers to; Unused specialization = @target definition no statement refers to");
    rep
}
