//! C05 — print/parse round trip: every tree, every literal / description string, every single
//! (and for tiny trees double) layout deviation, up to the bound.

use crate::ast::*;
use crate::enumr::{Enumerator, Vocab};
use crate::json::J;
use crate::report::{Report, Samples, Tier};
use complgen::parse::Grammar;
use std::collections::BTreeSet;

fn parse_to_g(text: &str) -> Result<G, String> {
    match crate::pipe::guarded(|| Grammar::parse(text)) {
        Ok(Ok(g)) => Ok(from_grammar(&g)),
        Ok(Err(e)) => Err(format!("{e:?}")),
        Err(p) => Err(format!("panic: {p}")),
    }
}

#[derive(Default)]
struct Acc {
    evals: u64,
    distinct: BTreeSet<u64>,
    viol: Vec<(String, String, J)>,
    samples: Option<Samples>,
}

fn expect(acc: &mut Acc, key: &str, want: &G, text: &str, what: &str) {
    acc.evals += 1;
    acc.distinct.insert(crate::report::fnv(text));
    match parse_to_g(text) {
        Ok(got) if &got == want => {
            if let Some(s) = acc.samples.as_mut() {
                s.offer(|| J::obj(vec![("kind", J::s(what)), ("text", J::s(text))]));
            }
        }
        Ok(got) => acc.viol.push((
            key.to_string(),
            format!("{what}: text {text:?} parses to a different tree"),
            J::obj(vec![("text", J::s(text)), ("expected", J::s(format!("{want:?}"))), ("got", J::s(format!("{got:?}")))]),
        )),
        Err(e) => acc.viol.push((
            format!("{key}-rejected"),
            format!("{what}: text {text:?} is rejected: {e}"),
            J::obj(vec![("text", J::s(text)), ("expected", J::s(format!("{want:?}"))), ("error", J::s(e))]),
        )),
    }
}

const SEPS: [&str; 10] = ["", " ", "  ", "\n", "\t", "\u{c}", " # c\n", " #\n", " # a\rb\n", "\r\n"];

fn allowed(sep: &str, glue: Glue) -> bool {
    match glue {
        Glue::Tight => false,
        Glue::Req => !sep.is_empty(),
        Glue::Opt0 | Glue::Opt1 | Glue::Stmt => true,
    }
}

fn tree_vocab() -> Vocab {
    Vocab {
        descrs: vec!["e".to_string()],
        ..Vocab::basic(vec![E::lit("a"), E::lit("b."), E::litd("a", "d"), E::r("X"), E::cmd("c")])
    }
}

fn literal_alphabet() -> Vec<char> {
    let mut v: Vec<char> = "a0!#$%&'*+,-/:=?@^_`~".chars().collect();
    v.extend(ESCAPABLE.iter());
    v
}

fn strings_upto(alpha: &[char], n: usize, f: &mut dyn FnMut(&str)) {
    fn rec(alpha: &[char], n: usize, cur: &mut String, f: &mut dyn FnMut(&str)) {
        if !cur.is_empty() {
            f(cur);
        }
        if cur.chars().count() == n {
            return;
        }
        for c in alpha {
            cur.push(*c);
            rec(alpha, n, cur, f);
            cur.pop();
        }
    }
    rec(alpha, n, &mut String::new(), f);
}

pub fn run(tier: Tier) -> Report {
    let mut rep = Report::new("C05", tier, "exploration");
    let k = tier.pick(7, 8);
    let k_layout1 = tier.pick(5, 5);
    let k_layout2 = tier.pick(3, 3);
    let n = crate::par::nthreads();

    // ---- 1. trees ---------------------------------------------------------------------
    let accs = crate::par::run(
        n,
        |push| {
            let en = Enumerator::new(tree_vocab(), 4);
            en.for_each_upto(k, &mut |e| push(e.clone()));
        },
        || Acc { samples: Some(Samples::new(3)), ..Default::default() },
        |acc, e: E| {
            let g = g1("cmd", e.clone());
            for dots in [DotStyle::Escaped, DotStyle::BareWhenLegal] {
                let toks = grammar_tokens(&g, dots);
                let text = render_canonical(&toks);
                expect(acc, "tree", &g, &text, "tree");
            }
            let sz = e.size();
            // single layout deviations
            if sz <= k_layout1 {
                let toks = grammar_tokens(&g, DotStyle::BareWhenLegal);
                for i in 1..toks.len() {
                    for sep in SEPS {
                        if !allowed(sep, toks[i].glue) {
                            continue;
                        }
                        let text = render_with(&toks, |j, _| if j == i { Some(sep.to_string()) } else { None });
                        expect(acc, "layout1", &g, &text, "single layout deviation");
                        if sz <= k_layout2 {
                            for i2 in (i + 1)..toks.len() {
                                for sep2 in SEPS {
                                    if !allowed(sep2, toks[i2].glue) {
                                        continue;
                                    }
                                    let text = render_with(&toks, |j, _| {
                                        if j == i {
                                            Some(sep.to_string())
                                        } else if j == i2 {
                                            Some(sep2.to_string())
                                        } else {
                                            None
                                        }
                                    });
                                    expect(acc, "layout2", &g, &text, "double layout deviation");
                                }
                            }
                        }
                    }
                }
            }
        },
    );
    let mut total = Acc { samples: Some(Samples::new(12)), ..Default::default() };
    let mut trees = 0u64;
    for a in accs {
        total.evals += a.evals;
        trees += 0;
        total.distinct.extend(a.distinct);
        total.viol.extend(a.viol);
        if let (Some(t), Some(s)) = (total.samples.as_mut(), a.samples) {
            t.merge(s);
        }
    }
    {
        let mut en = Enumerator::new(tree_vocab(), 2);
        for i in 1..=k {
            trees += en.count(i, false);
        }
    }

    // ---- 2. statement skeletons --------------------------------------------------------
    let mut acc = Acc { samples: Some(Samples::new(4)), ..Default::default() };
    // (literals starting with `:` and `=` stand right after the definition operator in the tight layout)
    let bodies = [E::lit("a"), E::Alt(vec![E::lit("a"), E::r("X")]), E::cmd("c"), E::Seq(vec![E::lit("a"), E::lit("b")]), E::Alt(vec![E::lit(":x"), E::lit("=y")]), E::Seq(vec![E::lit("=z"), E::lit(":w")])];
    let mut skeletons = 0u64;
    for b0 in &bodies {
        for b1 in &bodies {
            for shell in [None, Some("bash"), Some("zsh"), Some("tcsh")] {
                for assign in ["=", "::="] {
                    for semi_last in [true, false] {
                        for name in ["X", "PATH", "a b", "x-y_1"] {
                            if shell.is_some() && name.contains('@') {
                                continue;
                            }
                            let g = G {
                                stmts: vec![
                                    Stmt::Call { name: "cmd".into(), expr: b0.clone() },
                                    Stmt::Def { name: name.into(), shell: shell.map(|s| s.to_string()), expr: b1.clone() },
                                    Stmt::Call { name: "cmd".into(), expr: b1.clone() },
                                ],
                            };
                            for order in 0..3 {
                                let mut stmts = g.stmts.clone();
                                stmts.rotate_left(order);
                                let g = G { stmts };
                                let mut p = Printer::new(DotStyle::Escaped);
                                for (i, s) in g.stmts.iter().enumerate() {
                                    let last = i + 1 == g.stmts.len();
                                    p.stmt(s, i, if i == 0 { Glue::Opt0 } else { Glue::Stmt }, assign, !last || semi_last);
                                }
                                let text = render_canonical(&p.toks);
                                skeletons += 1;
                                expect(&mut acc, "statement", &g, &text, "statement skeleton");
                                // the tightest layout: no blank wherever blanks are optional
                                let tight = render_with(&p.toks, |_, glue| if matches!(glue, Glue::Opt0 | Glue::Opt1 | Glue::Stmt) { Some(String::new()) } else { None });
                                if tight != text {
                                    skeletons += 1;
                                    expect(&mut acc, "statement", &g, &tight, "statement skeleton, tightest layout");
                                }
                            }
                        }
                    }
                }
            }
        }
    }

    // ---- 2c. nonterminal names and command texts: every name of length <= 3 over a small
    // alphabet with blanks, dots, dashes, `@` and multi-byte letters, as a reference, as a plain
    // definition and as a shell-specific definition; command texts with multi-byte characters,
    // braces, comment lines and several lines
    let mut names = 0u64;
    {
        let alpha: Vec<char> = "aZ9 ._-@\u{e9}\u{444}\t".chars().collect();
        strings_upto(&alpha, 3, &mut |n| {
            if n.trim() != n || n.is_empty() {
                // the parser does not trim names, but a name of blanks only is not interesting
            }
            names += 1;
            // as a reference (any text without `>`)
            let g = g1("cmd", E::Seq(vec![E::lit("a"), E::r(n), E::Word(vec![E::lit("k="), E::r(n)])]));
            let text = render_canonical(&grammar_tokens(&g, DotStyle::Escaped));
            expect(&mut acc, "name", &g, &text, "nonterminal name in a reference");
            if !n.contains('@') {
                for shell in [None, Some("bash"), Some("pwsh")] {
                    let g = G { stmts: vec![Stmt::Call { name: "cmd".into(), expr: E::r(n) }, Stmt::Def { name: n.to_string(), shell: shell.map(|s| s.to_string()), expr: E::cmd("c") }] };
                    let text = render_canonical(&grammar_tokens(&g, DotStyle::Escaped));
                    expect(&mut acc, "name", &g, &text, "nonterminal name in a definition");
                }
            }
        });
        for c in ["echo \u{e9} foo", "echo zo\u{eb} zed", "echo caf\u{e9}", "echo \u{65e5}\u{672c} ab", "\u{e9}", "a}b", "a}}b", "{ a; }", "# c\necho a", "echo a\n  echo b", "echo \"q\" 'r' $x `y` \\", "x\ty"] {
            for g in [g1("cmd", E::Seq(vec![E::cmd(c), E::lit("t")])), g1("cmd", E::Word(vec![E::lit("k="), E::cmd(c)])), G { stmts: vec![Stmt::Call { name: "cmd".into(), expr: E::r("X") }, Stmt::Def { name: "X".into(), shell: Some("bash".into()), expr: E::cmd(c) }] }] {
                names += 1;
                let text = render_canonical(&grammar_tokens(&g, DotStyle::Escaped));
                expect(&mut acc, "command-text", &g, &text, "command text");
            }
        }
    }

    // ---- 2b. nested juxtaposition inside words: parses to the flattened tree
    crate::fam::nested_words(&mut |g| {
        let want = G {
            stmts: g
                .stmts
                .iter()
                .map(|s| match s {
                    Stmt::Call { name, expr } => Stmt::Call { name: name.clone(), expr: crate::fam::normalize_words(expr, false) },
                    Stmt::Def { name, shell, expr } => Stmt::Def { name: name.clone(), shell: shell.clone(), expr: crate::fam::normalize_words(expr, false) },
                })
                .collect(),
        };
        let text = render_canonical(&grammar_tokens(&g, DotStyle::Escaped));
        expect(&mut acc, "nested-word", &want, &text, "nested juxtaposition inside a word");
    });

    // ---- 3. literal strings ---------------------------------------------------------------
    let alpha = literal_alphabet();
    let maxlen = tier.pick(3, 3);
    let mut lits: Vec<String> = vec![];
    strings_upto(&alpha, maxlen, &mut |s| lits.push(s.to_string()));
    if tier == Tier::Thorough {
        // length 4 over the characters with special lexer treatment
        let hot: Vec<char> = "a.\\(#`$".chars().collect();
        strings_upto(&hot, 5, &mut |s| {
            if s.chars().count() >= 4 {
                lits.push(s.to_string())
            }
        });
    }
    let nlits = lits.len() as u64;
    let accs = crate::par::run(
        n,
        |push| {
            for l in lits {
                push(l);
            }
        },
        || Acc { samples: Some(Samples::new(2)), ..Default::default() },
        |acc, l: String| {
            for dots in [DotStyle::Escaped, DotStyle::BareWhenLegal] {
                let starts_hash = l.starts_with('#');
                let variants: Vec<(G, &str)> = vec![
                    (g1("cmd", E::lit(&l)), "top-level literal"),
                    (g1("cmd", E::Seq(vec![E::lit(&l), E::lit("z")])), "literal then literal"),
                    (g1("cmd", E::Many(Box::new(E::lit(&l)))), "literal with ..."),
                    (g1("cmd", E::Alt(vec![E::lit("z"), E::lit(&l)])), "literal after |"),
                    (g1("cmd", E::Opt(Box::new(E::lit(&l)))), "literal in []"),
                    (g1(&l, E::lit("z")), "command name"),
                ];
                for (g, what) in variants {
                    if starts_hash {
                        continue; // `#` after a blank starts a comment: not writable there
                    }
                    let text = render_canonical(&grammar_tokens(&g, dots));
                    expect(acc, "literal", &g, &text, what);
                }
                let inword = vec![
                    (g1("cmd", E::Word(vec![E::r("X"), E::lit(&l)])), "literal after <X> inside a word"),
                    (g1("cmd", E::Word(vec![E::r("X"), E::lit(&l), E::r("Y")])), "literal between <X> and <Y>"),
                    (g1("cmd", E::Word(vec![E::litd("q", "d"), E::lit(&l)])), "literal after described literal in a word"),
                ];
                for (g, what) in inword {
                    let text = render_canonical(&grammar_tokens(&g, dots));
                    expect(acc, "literal", &g, &text, what);
                }
            }
        },
    );
    for a in accs {
        acc.evals += a.evals;
        acc.distinct.extend(a.distinct);
        acc.viol.extend(a.viol);
        if let (Some(t), Some(s)) = (acc.samples.as_mut(), a.samples) {
            t.merge(s);
        }
    }

    // ---- 4. description strings ------------------------------------------------------------
    let dalpha: Vec<char> = vec!['a', ' ', '"', '\\', '#', ';', '\n', '\t', '{', '<', '\u{e9}', '.'];
    let mut descrs: Vec<String> = vec![String::new()];
    strings_upto(&dalpha, tier.pick(3, 4), &mut |s| descrs.push(s.to_string()));
    let ndescr = descrs.len() as u64;
    for d in &descrs {
        for g in [
            g1("cmd", E::litd("x", d)),
            g1("cmd", E::Descr(Box::new(E::Alt(vec![E::lit("x"), E::lit("y")])), d.clone())),
            g1("cmd", E::Seq(vec![E::litd("x", d), E::lit("z")])),
        ] {
            let text = render_canonical(&grammar_tokens(&g, DotStyle::Escaped));
            expect(&mut acc, "description", &g, &text, "description string");
        }
    }

    total.evals += acc.evals;
    total.distinct.extend(acc.distinct);
    total.viol.extend(acc.viol);
    if let (Some(t), Some(s)) = (total.samples.as_mut(), acc.samples) {
        t.merge(s);
    }

    for (k, s, d) in &total.viol {
        rep.violation(k, s.clone(), d.clone());
    }
    rep.cov("evaluations", J::i(total.evals as i64));
    rep.cov("distinct_nontrivial", J::i(total.distinct.len() as i64));
    rep.cov("trees", J::i(trees as i64));
    rep.cov("statement_skeletons", J::i(skeletons as i64));
    rep.cov("nonterminal_names_and_command_texts", J::i(names as i64));
    rep.cov("literal_strings", J::i(nlits as i64));
    rep.cov("description_strings", J::i(ndescr as i64));
    rep.cov(
        "rule",
        J::s(format!(
            "exhaustive: (1) every tree with <= {k} nodes over leaves {{a, b., a \"d\", <X>, {{{{{{ c }}}}}}}}, operators seq | || [] ... word descr, arity 2..3, printed with minimal parentheses in two dot styles; every single separator deviation from {SEPS:?} at every token gap for trees <= {k_layout1} nodes, every pair for trees <= {k_layout2} nodes; (2b) nested juxtapositions inside words under every operator, directly and through definitions, must parse to the flattened tree; (2c) every nonterminal name of length <= 3 over {{a, Z, 9, blank, '.', '_', '-', '@', e-acute, a Cyrillic letter, TAB}} as a reference (top level and inside a word) and, without '@', as a plain / @bash / @pwsh definition; 12 command texts with multi-byte characters, braces, comment lines and several lines in three roles; (2) statement skeletons: call/plain/@shell definitions x =/::= x final ; x statement order; (3) every literal string of length <= {maxlen} over {} characters (every regular class representative + all 13 escapes) in 9 placements x 2 dot styles; (4) every description string up to length {} over {:?}. distinct = distinct input texts parsed; an evaluation is non-trivial when the text differs from every other text (hash of text).",
            alpha.len(),
            tier.pick(3, 4),
            dalpha
        )),
    );
    rep.cov("exhaustive", J::Bool(true));
    rep.cov("samples", J::Arr(total.samples.map(|s| s.items).unwrap_or_default()));
    rep.assume("the harness printer implements the documented precedence ladder; a literal starting with '#' is only writable inside a word (after a blank it starts a comment)");
    rep
}
