//! C09 — a typed word never has two readings; `||` is transparent to matching.
//! Part a (automaton level): in every state of every compiled automaton, two outgoing items
//! that read the same word (same literal text; within-word automata with equal word
//! languages) must lead to the same state.  Part b (`||` -> `|` differential): the automaton of
//! the grammar with every `||` replaced by `|` must accept the same label sequences once
//! fallback levels are erased.

use crate::ast::{print_grammar, Stmt, E, G};
use crate::auto::{determinize_l, equivalent};
use crate::enumr::{Enumerator, Vocab};
use crate::json::J;
use crate::pipe::{self, Outcome, Shell};
use crate::report::{Report, Samples, Tier};
use crate::view::Keys;
use complgen::dfa::{Inp, DFA};
use std::collections::BTreeMap;

#[derive(Default)]
pub struct Acc {
    grammars: u64,
    accepted: u64,
    states: u64,
    transitions: u64,
    pairs: u64,
    collisions: u64, // same-reading pairs met (the non-trivial cases)
    diff_pairs: u64,
    viol: Vec<(String, String, J)>,
    samples: Option<Samples>,
}

fn check_dfa(acc: &mut Acc, dfa: &DFA, owner: &DFA, what: &str, text: &str) {
    let mut keys = Keys::new(false);
    keys.erase_levels = true;
    for (from, tos) in &dfa.transitions {
        acc.states += 1;
        let mut lit: BTreeMap<String, Vec<(String, u32)>> = BTreeMap::new();
        let mut subs: Vec<(String, u32)> = vec![];
        for (inp_id, to) in tos {
            acc.transitions += 1;
            match dfa.verif_input(*inp_id) {
                Inp::Literal { literal, description, fallback_level } => {
                    lit.entry(literal.to_string())
                        .or_default()
                        .push((format!("{literal} {:?} (level {fallback_level})", description.map(|d| d.to_string())), *to));
                }
                Inp::Command { cmd, fallback_level } => {
                    // one command = one set of words it produces, whatever the level
                    lit.entry(format!("{{{{{{ {cmd} }}}}}}")).or_default().push((format!("command {cmd:?} (level {fallback_level})"), *to));
                }
                Inp::Compadd { cmd, fallback_level } => {
                    // a zsh completer that calls compadd: its words are what it hands to compadd,
                    // not what a command of the same text prints, so it is a reading of its own
                    lit.entry(format!("{{{{{{ {cmd} }}}}}}compadd")).or_default().push((format!("compadd command {cmd:?} (level {fallback_level})"), *to));
                }
                Inp::Subword { subdfa, .. } => {
                    let sub = owner.subdfas.verif_lookup(*subdfa);
                    let n = keys.impl_lnfa(sub, owner);
                    let canon = determinize_l(&n, &mut keys.names).canonical(&keys.names);
                    subs.push((canon, *to));
                }
                _ => {}
            }
        }
        for (t, v) in &lit {
            for i in 0..v.len() {
                for j in (i + 1)..v.len() {
                    acc.pairs += 1;
                    acc.collisions += 1;
                    if v[i].1 != v[j].1 {
                        acc.viol.push((
                            "literal-two-readings".into(),
                            format!("{what}: state {from} expects literal {t:?} twice ({} -> {}, {} -> {}) with different continuations", v[i].0, v[i].1, v[j].0, v[j].1),
                            J::obj(vec![("grammar", J::s(text)), ("state", J::i(*from as i64)), ("literal", J::s(t)), ("automaton", J::s(what))]),
                        ));
                    }
                }
            }
        }
        for i in 0..subs.len() {
            for j in (i + 1)..subs.len() {
                acc.pairs += 1;
                if subs[i].0 == subs[j].0 {
                    acc.collisions += 1;
                    if subs[i].1 != subs[j].1 {
                        acc.viol.push((
                            "subword-two-readings".into(),
                            format!("{what}: state {from} expects two within-word expressions accepting the same words, with different continuations ({} vs {})", subs[i].1, subs[j].1),
                            J::obj(vec![("grammar", J::s(text)), ("state", J::i(*from as i64)), ("automaton", J::s(what)), ("word_language", J::s(subs[i].0.replace(crate::view::SEP, "\u{b7}")))]),
                        ));
                    }
                }
            }
        }
    }
}

pub fn work(acc: &mut Acc, g: G, shell: Shell) {
    let text = print_grammar(&g);
    acc.grammars += 1;
    let c = match pipe::compile(&text, shell) {
        Outcome::Ok(c) => c,
        Outcome::Err(_) => return,
        Outcome::Panic(p) => {
            acc.viol.push(("crash".into(), format!("pipeline panicked: {p}"), J::obj(vec![("grammar", J::s(&text))])));
            return;
        }
    };
    acc.accepted += 1;
    let before = acc.collisions;
    let what_main = format!("--{} main automaton", pipe::shell_name(shell));
    let what_sub = format!("--{} within-word automaton", pipe::shell_name(shell));
    check_dfa(acc, &c.min, &c.min, &what_main, &text);
    for (_, inp) in c.min.verif_inputs() {
        if let Inp::Subword { subdfa, .. } = inp {
            let sub = c.min.subdfas.verif_lookup(*subdfa);
            check_dfa(acc, sub, &c.min, &what_sub, &text);
        }
    }
    // part b: `||` -> `|`
    let has_fb = g.stmts.iter().any(|s| match s {
        Stmt::Call { expr, .. } | Stmt::Def { expr, .. } => expr.any(|e| matches!(e, E::Fb(_))),
    });
    if has_fb {
        let g2 = G {
            stmts: g
                .stmts
                .iter()
                .map(|s| match s {
                    // descriptions are dropped from the `|` variant: which literal a group's
                    // description reaches differs between `||` and `|`, and that is not matching
                    Stmt::Call { name, expr } => Stmt::Call { name: name.clone(), expr: expr.fb_to_alt().without_descriptions() },
                    Stmt::Def { name, shell, expr } => Stmt::Def { name: name.clone(), shell: shell.clone(), expr: expr.fb_to_alt().without_descriptions() },
                })
                .collect(),
        };
        let text2 = print_grammar(&g2);
        match pipe::compile(&text2, shell) {
            Outcome::Ok(c2) => {
                acc.diff_pairs += 1;
                let mut keys = Keys::new(false);
                keys.erase_levels = true;
                let a = keys.impl_nfa(&c.min, &c.min);
                let b = keys.impl_nfa(&c2.min, &c2.min);
                match equivalent(&a, &b) {
                    Ok(st) => {
                        acc.states += st.states;
                        acc.transitions += st.transitions;
                    }
                    Err((cex, _)) => acc.viol.push((
                        "fallback-changes-matching".into(),
                        format!("`||` grammar and its `|` variant match different command lines: after [{}]: {} (left `||`, right `|`)", keys.render_path(&cex.path), cex.why),
                        J::obj(vec![("grammar", J::s(&text)), ("alt_variant", J::s(&text2)), ("label_path", J::s(keys.render_path(&cex.path))), ("why", J::s(cex.why))]),
                    )),
                }
            }
            Outcome::Err(e) => acc.viol.push((
                "fallback-changes-verdict".into(),
                format!("grammar accepted with `||` but rejected ({}) with `|`", pipe::error_kind(&e)),
                J::obj(vec![("grammar", J::s(&text)), ("alt_variant", J::s(&text2))]),
            )),
            Outcome::Panic(p) => acc.viol.push(("crash".into(), format!("pipeline panicked: {p}"), J::obj(vec![("grammar", J::s(&text2))]))),
        }
    }
    if acc.collisions > before {
        if let Some(s) = acc.samples.as_mut() {
            s.offer(|| J::obj(vec![("grammar", J::s(text.trim_end())), ("same_reading_pairs", J::i((acc.collisions - before) as i64))]));
        }
    }
}

/// collision-forcing family: branches / call variants that start alike; within-word
/// expressions repeated with permuted alternatives or through definitions
pub fn collision_family(kb: usize, kw: usize, f: &mut dyn FnMut(G)) {
    let v = Vocab { descrs: vec![], ..Vocab::basic(vec![E::lit("a"), E::lit("b")]) };
    let en = Enumerator::new(v, kb);
    let mut bs = vec![];
    en.for_each_upto(kb, &mut |e| bs.push(e.clone()));
    for x in &bs {
        for y in &bs {
            f(crate::fam::call(E::Fb(vec![x.clone(), y.clone()])));
            f(crate::fam::call(E::Alt(vec![x.clone(), y.clone()])));
            f(G { stmts: vec![Stmt::Call { name: "cmd".into(), expr: x.clone() }, Stmt::Call { name: "cmd".into(), expr: y.clone() }] });
            f(crate::fam::call(E::Seq(vec![E::Fb(vec![x.clone(), y.clone()]), E::lit("t")])));
        }
    }
    // within-word: `cmd W1 c | W2 d`, `cmd (W1 c || W2 d)`, and W2 through a definition
    let vw = Vocab { descrs: vec![], word: false, ..Vocab::basic(vec![E::lit("a"), E::lit("b"), E::lit("p=")]) };
    let enw = Enumerator::new(vw, kw);
    let mut ws = vec![];
    for n in 1..=kw {
        enw.for_each(n, true, &mut |e| ws.push(e.clone()));
    }
    let words: Vec<E> = ws.iter().map(|w| E::Word(vec![E::lit("x="), w.clone()])).collect();
    for w1 in &words {
        for w2 in &words {
            f(crate::fam::call(E::Alt(vec![E::Seq(vec![w1.clone(), E::lit("c")]), E::Seq(vec![w2.clone(), E::lit("d")])])));
            f(crate::fam::call(E::Fb(vec![E::Seq(vec![w1.clone(), E::lit("c")]), E::Seq(vec![w2.clone(), E::lit("d")])])));
        }
    }
    for (w1, i1) in words.iter().zip(ws.iter()) {
        let _ = w1;
        for i2 in &ws {
            f(G {
                stmts: vec![
                    Stmt::Call {
                        name: "cmd".into(),
                        expr: E::Alt(vec![
                            E::Seq(vec![E::Word(vec![E::lit("x="), i1.clone()]), E::lit("c")]),
                            E::Seq(vec![E::Word(vec![E::lit("x="), E::r("V")]), E::lit("d")]),
                        ]),
                    },
                    crate::fam::def("V", i2.clone()),
                ],
            });
        }
    }
}

/// branches that start with the same *completer* (built-in `<PATH>`/`<DIRECTORY>`, a nonterminal
/// defined per shell, an inline command): one command = one reading in every target shell
/// (zsh turns the first two into `compadd` items)
pub fn completer_family(kb: usize, f: &mut dyn FnMut(G)) {
    let v = Vocab { descrs: vec![], ..Vocab::basic(vec![E::lit("a"), E::r("PATH"), E::r("X"), E::cmd("c1")]) };
    let en = Enumerator::new(v, kb);
    let mut bs = vec![];
    en.for_each_upto(kb, &mut |e| {
        if e.any(|x| matches!(x, E::Ref(_) | E::Cmd(_))) {
            bs.push(e.clone())
        }
    });
    let defs = |g: &mut G| {
        for sh in ["bash", "fish", "zsh", "pwsh"] {
            g.stmts.push(Stmt::Def { name: "X".into(), shell: Some(sh.into()), expr: E::cmd(&format!("x{sh}")) });
        }
    };
    for x in &bs {
        for y in &bs {
            for e in [E::Fb(vec![x.clone(), y.clone()]), E::Alt(vec![x.clone(), y.clone()]), E::Seq(vec![E::Fb(vec![x.clone(), y.clone()]), E::lit("t")])] {
                let mut g = crate::fam::call(e);
                defs(&mut g);
                f(g);
            }
        }
    }
}

/// Part b in a real bash: the `||` grammar and its `|` rewrite answer the same traces
fn bash_differential(tier: Tier, rep: &mut Report) -> (u64, u64) {
    use crate::bashrun::{self, Query};
    use crate::traces::{explore_mode, std_probes, vocabulary};
    let (defs, probes) = std_probes();
    let scratch = crate::binrun::Scratch::new("c09b");
    let lit = E::lit;
    let p1 = || E::cmd(&bashrun::probe_cmd("1"));
    let color = || E::Word(vec![lit("--color="), E::Alt(vec![lit("always"), lit("never")])]);
    let mut items: Vec<E> = vec![lit("status"), color(), p1(), E::Seq(vec![lit("a"), lit("x")]), E::Seq(vec![lit("a"), lit("y")])];
    if tier == Tier::Thorough {
        items.push(lit("stop"));
        items.push(E::r("U"));
        items.push(E::Word(vec![lit("k="), p1()]));
        items.push(E::Opt(Box::new(lit("o"))));
        items.push(E::Many(Box::new(lit("m"))));
    }
    let mut grammars: Vec<G> = vec![];
    for (i, x) in items.iter().enumerate() {
        for (j, y) in items.iter().enumerate() {
            if i == j {
                continue;
            }
            grammars.push(crate::fam::call(E::Seq(vec![E::Fb(vec![x.clone(), y.clone()]), lit("end")])));
            if tier == Tier::Thorough || (i + j) % 4 == 1 {
                grammars.push(crate::fam::call(E::Fb(vec![x.clone(), y.clone(), lit("help")])));
            }
        }
    }
    grammars.push(crate::fam::call(E::Word(vec![lit("w="), E::Fb(vec![lit("p"), lit("q")]), E::Opt(Box::new(lit(",r")))])));
    let mut seen = std::collections::BTreeSet::new();
    let mut traces_n = 0u64;
    let mut pairs = 0u64;
    for g in grammars {
        let text = print_grammar(&g);
        if !seen.insert(text.clone()) {
            continue;
        }
        let g2 = G {
            stmts: g
                .stmts
                .iter()
                .map(|s| match s {
                    Stmt::Call { name, expr } => Stmt::Call { name: name.clone(), expr: expr.fb_to_alt() },
                    Stmt::Def { name, shell, expr } => Stmt::Def { name: name.clone(), shell: shell.clone(), expr: expr.fb_to_alt() },
                })
                .collect(),
        };
        let text2 = print_grammar(&g2);
        let (c1, c2) = match (pipe::compile(&text, Shell::Bash), pipe::compile(&text2, Shell::Bash)) {
            (Outcome::Ok(a), Outcome::Ok(b)) => (a, b),
            _ => continue,
        };
        let (Ok(s1), Ok(s2)) = (pipe::emit(&c1, Shell::Bash), pipe::emit(&c2, Shell::Bash)) else { continue };
        let Ok(a) = crate::refsem::reference(&g, Shell::Bash) else { continue };
        let vocab = vocabulary(&a, &probes);
        let ex = explore_mode(&a, &probes, &vocab, 2, tier.pick(28, 400), tier == Tier::Quick);
        let queries: Vec<Query> = ex
            .traces
            .iter()
            .map(|t| {
                let mut w = t.path.clone();
                w.push(t.cursor.clone());
                Query { words: w, default_wordbreaks: t.default_wb }
            })
            .collect();
        let b1 = bashrun::run_batch(&s1, &c1.command, &defs, &queries, &scratch);
        let b2 = bashrun::run_batch(&s2, &c2.command, &defs, &queries, &scratch);
        if b1.failed.is_some() || b2.failed.is_some() {
            eprintln!("machinery failure: {:?} {:?}", b1.failed, b2.failed);
            std::process::exit(2);
        }
        pairs += 1;
        for ((t, x), y) in ex.traces.iter().zip(b1.answers.iter()).zip(b2.answers.iter()) {
            traces_n += 1;
            let norm = |a: &bashrun::Answer| a.replies.iter().map(|r| r.strip_suffix(' ').unwrap_or(r).to_string()).collect::<std::collections::BTreeSet<String>>();
            let (rx, ry) = (norm(x), norm(y));
            let line = format!("cmd {}<TAB>", t.path.iter().map(|w| format!("{w} ")).collect::<String>() + &t.cursor);
            let detail = |why: &str| {
                J::obj(vec![
                    ("grammar", J::s(&text)),
                    ("alt_variant", J::s(&text2)),
                    ("command_line", J::s(&line)),
                    ("fallback_offers", J::arr_s(rx.iter().cloned())),
                    ("alternative_offers", J::arr_s(ry.iter().cloned())),
                    ("return_codes", J::s(format!("{} vs {}", x.rc, y.rc))),
                    ("why", J::s(why)),
                ])
            };
            if x.rc != y.rc {
                rep.violation("bash-fallback-changes-matching", format!("`{line}`: `||` grammar `{}` returns {} but its `|` variant returns {}", text.trim_end(), x.rc, y.rc), detail("return code"));
            } else if !rx.is_subset(&ry) {
                rep.violation("bash-fallback-offers-more", format!("`{line}`: `||` grammar `{}` offers {rx:?}, not a subset of what its `|` variant offers {ry:?}", text.trim_end()), detail("subset"));
            } else if rx.is_empty() && !ry.is_empty() {
                rep.violation("bash-fallback-hides-candidates", format!("`{line}`: `|` variant offers {ry:?} but the `||` grammar `{}` offers nothing", text.trim_end()), detail("hidden"));
            }
        }
    }
    (pairs, traces_n)
}

pub fn run(tier: Tier) -> Report {
    let mut rep = Report::new("C09", tier, "model_checking");
    let (bash_pairs, bash_traces) = bash_differential(tier, &mut rep);
    let k = tier.pick(5, 6);
    let (kb, kw) = tier.pick((3, 3), (4, 4));
    let kc = tier.pick(3, 4);
    let n = crate::par::nthreads();
    let accs = crate::par::run(
        n,
        |push| {
            for g in crate::corpus::grammars() {
                for (sh, _) in pipe::SHELLS {
                    push((g.clone(), sh));
                }
            }
            // bash for everything; the other targets where they can differ: grammars with
            // nonterminals or commands (zsh's compadd items, per-shell definitions)
            let mut push_all = |g: G| {
                let special = g.stmts.iter().any(|s| match s {
                    Stmt::Call { expr, .. } | Stmt::Def { expr, .. } => expr.any(|e| matches!(e, E::Ref(_) | E::Cmd(_))),
                });
                if special {
                    for sh in [Shell::Fish, Shell::Zsh, Shell::Pwsh] {
                        push((g.clone(), sh));
                    }
                }
                push((g, Shell::Bash));
            };
            collision_family(kb, kw, &mut |g| push_all(g));
            completer_family(kc, &mut |g| push_all(g));
            crate::fam::kind_twins(&mut |g| push_all(g));
            crate::fam::fallback_only_words(&mut |g| push_all(g));
            crate::fam::single_call(crate::fam::v0(), k, &mut |g| push_all(g));
        },
        || Acc { samples: Some(Samples::new(3)), ..Default::default() },
        |acc, (g, shell)| work(acc, g, shell),
    );
    let mut t = Acc { samples: Some(Samples::new(12)), ..Default::default() };
    for a in accs {
        t.grammars += a.grammars;
        t.accepted += a.accepted;
        t.states += a.states;
        t.transitions += a.transitions;
        t.pairs += a.pairs;
        t.collisions += a.collisions;
        t.diff_pairs += a.diff_pairs;
        t.viol.extend(a.viol);
        if let (Some(x), Some(s)) = (t.samples.as_mut(), a.samples) {
            x.merge(s);
        }
    }
    for (k, s, d) in &t.viol {
        rep.violation(k, s.clone(), d.clone());
    }
    rep.cov("states", J::i(t.states as i64));
    rep.cov("transitions", J::i(t.transitions as i64));
    rep.cov("traces_validated_against_impl", J::i(bash_traces as i64));
    rep.cov("bash_fallback_vs_alternative_grammar_pairs", J::i(bash_pairs as i64));
    rep.cov("grammars_enumerated", J::i(t.grammars as i64));
    rep.cov("accepted", J::i(t.accepted as i64));
    rep.cov("item_pairs_examined", J::i(t.pairs as i64));
    rep.cov("same_reading_pairs_met", J::i(t.collisions as i64));
    rep.cov("fallback_vs_alternative_products", J::i(t.diff_pairs as i64));
    rep.cov(
        "rule",
        J::s(format!(
            "exhaustive: collision family (all pairs of trees <= {kb} nodes over {{a, b}} as `||` branches, `|` branches, two call variants, and followed by a word; all pairs of within-word expressions <= {kw} nodes over {{a, b, p=}} after `x=` in two branches, also through a definition) + completer family (all pairs of trees <= {kc} nodes over {{a, <PATH>, <X> defined per shell, a command}} containing a completer, as `||` / `|` branches) + all trees <= {k} nodes over V0 + corpus; compiled for bash, and for fish, zsh and pwsh as well whenever the grammar has a nonterminal or command (zsh's compadd items). Every state of every compiled (minimized) automaton incl. within-word automata is visited; every pair of outgoing items is examined; states/transitions = automaton states/edges visited plus the product states of the `||` vs `|` comparison (labels with fallback levels and descriptions erased). Bash level: `(X || Y) end`, `X || Y || help` and a within-word `||` for all ordered pairs of a menu of literals, words, probes, sequences starting alike and a placeholder; the traces of the model of the `||` grammar (depth 2) are replayed against both emitted scripts in real bash: same return code, candidates(||) subset of candidates(|), candidates(|) non-empty implies candidates(||) non-empty."
        )),
    );
    rep.cov("exhaustive", J::Bool(true));
    rep.cov("samples", J::Arr(t.samples.map(|s| s.items).unwrap_or_default()));
    rep.assume("two within-word expressions 'accept the same words' iff their automata are equal as languages over item texts (levels and descriptions erased)");
    rep
}
