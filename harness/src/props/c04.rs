//! C04 — every emitted script embeds exactly the compiled automaton.
//! The table statements of each script are read back with the shell's own quoting rules and
//! indexing base (harness/src/shells.rs); an automaton is rebuilt from them and compared, by the
//! same explicit-state product as C02, with the REFERENCE automaton of the grammar.

use crate::ast::{print_grammar, Stmt, E, G};
use crate::auto::{determinize_l, equivalent_l, LNfa};
use crate::fam::{call, def, spec};
use crate::json::J;
use crate::pipe::{self, Outcome, Shell, SHELLS};
use crate::refsem;
use crate::report::{Report, Samples, Tier};
use crate::shells::{self, Script, Sh, Tables};
use crate::view::{Keys, SEP};
use std::collections::{BTreeMap, BTreeSet, HashMap};

pub fn sh_of(s: Shell) -> Sh {
    match s {
        Shell::Bash => Sh::Bash,
        Shell::Fish => Sh::Fish,
        Shell::Zsh => Sh::Zsh,
        Shell::Pwsh => Sh::Pwsh,
    }
}

/// rebuild a labelled NFA from read-back tables; Err = the tables are inconsistent (violation)
fn tables_lnfa(t: &Tables, script: &Script, sh: Sh, keys: &mut Keys, is_sub: bool) -> Result<LNfa, String> {
    let base = sh.base();
    // state numbering
    let mut ids: Vec<u32> = vec![];
    let mut index: HashMap<u32, usize> = HashMap::new();
    let mut add = |s: u32, ids: &mut Vec<u32>, index: &mut HashMap<u32, usize>| {
        if !index.contains_key(&s) {
            index.insert(s, ids.len());
            ids.push(s);
        }
    };
    let start = if is_sub { base } else { script.start_state.ok_or("no start state statement found")? };
    add(start, &mut ids, &mut index);
    for m in [&t.literal_transitions, &t.command_transitions, &t.compadd_transitions, &t.subword_transitions] {
        for (s, tos) in m {
            add(*s, &mut ids, &mut index);
            for to in tos.values() {
                add(*to, &mut ids, &mut index);
            }
        }
    }
    for (s, to) in &t.star_transitions {
        add(*s, &mut ids, &mut index);
        add(*to, &mut ids, &mut index);
    }
    let mut n = LNfa { starts: BTreeSet::from([0]), accept: vec![true; ids.len()], trans: vec![vec![]; ids.len()] };
    let levels_of = |tables: &Vec<BTreeMap<u32, Vec<u32>>>, s: u32, id: u32| -> Vec<usize> {
        tables.iter().enumerate().filter(|(_, m)| m.get(&s).map(|v| v.contains(&id)).unwrap_or(false)).map(|(l, _)| l).collect()
    };
    let lvl = |keys: &Keys, l: usize| if keys.erase_levels { 0 } else { l };
    // literals
    for (s, tos) in &t.literal_transitions {
        for (lit, to) in tos {
            let text = t.literals.get(lit.checked_sub(base).ok_or_else(|| format!("literal id {lit} below the index base {base}"))? as usize).ok_or_else(|| format!("state {s}: literal id {lit} is outside the literal list ({} entries, base {base})", t.literals.len()))?;
            let ls = levels_of(&t.literal_levels, *s, *lit);
            if ls.is_empty() {
                return Err(format!("state {s}: literal {text:?} (id {lit}) has a transition but is listed at no fallback level"));
            }
            let d = if keys.strict {
                match t.descr.get(lit) {
                    Some(d) if !d.is_empty() => format!("={d}"),
                    _ => "-".to_string(),
                }
            } else {
                "*".to_string()
            };
            for l in ls {
                let label = keys.names.get(&format!("L{SEP}{text}{SEP}{d}{SEP}{}", lvl(keys, l)));
                let read = keys.names.get(&format!("R{SEP}L{SEP}{text}{SEP}*{SEP}0"));
                n.trans[index[s]].push((read, label, index[to]));
            }
        }
    }
    for (l, m) in t.literal_levels.iter().enumerate() {
        for (s, lits) in m {
            for lit in lits {
                if !t.literal_transitions.get(s).map(|x| x.contains_key(lit)).unwrap_or(false) {
                    return Err(format!("state {s}, level {l}: literal id {lit} is listed as a candidate but has no transition"));
                }
            }
        }
    }
    // commands (and zsh compadd commands)
    for (kind, trans, levels) in [("C", &t.command_transitions, &t.command_levels), ("A", &t.compadd_transitions, &t.compadd_levels)] {
        for (s, tos) in trans {
            for (c, to) in tos {
                let body = script.commands.get(c).ok_or_else(|| format!("state {s}: command id {c} has no function"))?;
                let ls = levels_of(levels, *s, *c);
                if ls.is_empty() {
                    return Err(format!("state {s}: command {body:?} (id {c}) has a transition but is listed at no fallback level"));
                }
                for l in ls {
                    let label = keys.names.get(&format!("{kind}{SEP}{}{SEP}{}", body.trim(), lvl(keys, l)));
                    let read = keys.names.get(&format!("R{SEP}{kind}{SEP}{}{SEP}0", body.trim()));
                    n.trans[index[s]].push((read, label, index[to]));
                }
            }
        }
        for (l, m) in levels.iter().enumerate() {
            for (s, cs) in m {
                for c in cs {
                    if !trans.get(s).map(|x| x.contains_key(c)).unwrap_or(false) {
                        return Err(format!("state {s}, level {l}: command id {c} is listed as a candidate but has no transition"));
                    }
                }
            }
        }
    }
    // within-word automata
    for (s, tos) in &t.subword_transitions {
        for (sub, to) in tos {
            let st = script.subs.get(sub).ok_or_else(|| format!("state {s}: within-word id {sub} has no wrapper function"))?;
            let ls = levels_of(&t.subword_levels, *s, *sub);
            if ls.is_empty() {
                return Err(format!("state {s}: within-word automaton {sub} has a transition but is listed at no fallback level"));
            }
            let sub_n = tables_lnfa(st, script, sh, keys, true).map_err(|e| format!("within-word automaton {sub}: {e}"))?;
            let canon = determinize_l(&sub_n, &mut keys.names).canonical(&keys.names);
            // reading: levels and descriptions erased
            let (strict, erase) = (keys.strict, keys.erase_levels);
            keys.strict = false;
            keys.erase_levels = true;
            let sub_r = tables_lnfa(st, script, sh, keys, true)?;
            let canon_r = determinize_l(&sub_r, &mut keys.names).canonical(&keys.names);
            keys.strict = strict;
            keys.erase_levels = erase;
            for l in ls {
                let label = keys.names.get(&format!("S{SEP}{canon}{SEP}{}", lvl(keys, l)));
                let read = keys.names.get(&format!("R{SEP}S{SEP}{canon_r}{SEP}0"));
                n.trans[index[s]].push((read, label, index[to]));
            }
        }
    }
    for (l, m) in t.subword_levels.iter().enumerate() {
        for (s, subs) in m {
            for sub in subs {
                if !t.subword_transitions.get(s).map(|x| x.contains_key(sub)).unwrap_or(false) {
                    return Err(format!("state {s}, level {l}: within-word id {sub} is listed as a candidate but has no transition"));
                }
            }
        }
    }
    for (s, to) in &t.star_transitions {
        let label = keys.names.get("*");
        let read = keys.names.get(&format!("R{SEP}*"));
        n.trans[index[s]].push((read, label, index[to]));
    }
    Ok(n)
}

#[derive(Default)]
pub struct Acc {
    grammars: u64,
    scripts: u64,
    states: u64,
    transitions: u64,
    with_shared: u64,
    history_states: u64,
    history_transitions: u64,
    with_sub: u64,
    rejected: u64,
    viol: Vec<(String, String, J)>,
    machinery: Vec<String>,
    samples: Option<Samples>,
}

pub fn check_script(g: &G, text: &str, shell: Shell, c: &pipe::Compiled, acc: &mut Acc) {
    let sn = pipe::shell_name(shell);
    let sh = sh_of(shell);
    let bytes = match pipe::emit(c, shell) {
        Ok(b) => b,
        Err(e) => {
            acc.viol.push(("crash".into(), format!("emitter failed: {e}"), J::obj(vec![("grammar", J::s(text)), ("shell", J::s(sn))])));
            return;
        }
    };
    let script_text = String::from_utf8_lossy(&bytes).to_string();
    acc.scripts += 1;
    let detail = |why: &str| J::obj(vec![("grammar", J::s(text)), ("shell", J::s(sn)), ("why", J::s(why)), ("reproduce", J::s(format!("complgen --{sn} - FILE")))]);
    let script = match shells::read(sh, &script_text, &c.command) {
        Ok(s) => s,
        Err(e) => {
            if e.contains("would expand") || e.contains("would run") || e.contains("unterminated") || e.contains("closes a PowerShell") || e.contains("would be expanded") {
                acc.viol.push(("string-constant-not-inert".into(), format!("--{sn} script: {e}"), detail(&e)));
            } else if e.contains("refers to description") || e.contains("is not defined") || e.contains("but no target") || e.contains("value cells") || e.contains("differ in length") || e.contains("duplicate key") || e.contains("listed twice") || e.contains("targets") {
                acc.viol.push(("inconsistent-tables".into(), format!("--{sn} script: {e}"), detail(&e)));
            } else {
                acc.machinery.push(format!("reader for {sn} does not recognise the layout: {e} (grammar {text:?})"));
            }
            return;
        }
    };
    if script.registered_for.as_deref() != Some(c.command.as_str()) {
        acc.viol.push(("not-registered".into(), format!("--{sn} script does not register its completion function for `{}` (found {:?})", c.command, script.registered_for), detail("registration")));
        return;
    }
    let r = match refsem::reference(g, shell) {
        Ok(r) => r,
        Err(_) => return,
    };
    // bash has no descriptions at all; elsewhere compare them where the reference fixes them
    let strict = !r.dontcare && sh != Sh::Bash;
    let mut keys = Keys::new(strict);
    keys.all_accepting = true;
    let a = keys.ref_lnfa(&r);
    let b = match tables_lnfa(&script.main, &script, sh, &mut keys, false) {
        Ok(b) => b,
        Err(e) => {
            acc.viol.push(("inconsistent-tables".into(), format!("--{sn} script: {e}"), detail(&e)));
            return;
        }
    };
    if !script.subs.is_empty() {
        acc.with_sub += 1;
    }
    // fish keeps within-word tables in global variables: explore all call histories
    if sh == Sh::Fish && script.subs.len() >= 2 && script.subs.len() <= 6 {
        match shells::fish_history_check(&script_text, &c.command, 3) {
            Ok((st, tr)) => {
                acc.history_states += st;
                acc.history_transitions += tr;
            }
            Err(e) if e.starts_with("after the call history") => {
                acc.viol.push(("stale-global-tables".into(), format!("--fish script: {e}"), detail(&e)));
                return;
            }
            Err(e) => {
                acc.machinery.push(format!("fish history explorer: {e}"));
                return;
            }
        }
    }
    if script_text.contains("_subword_shape_") {
        acc.with_shared += 1;
    }
    match equivalent_l(&a, &b) {
        Ok(st) => {
            acc.states += st.states;
            acc.transitions += st.transitions;
            if let Some(s) = acc.samples.as_mut() {
                s.offer(|| J::obj(vec![("grammar", J::s(text.trim_end())), ("shell", J::s(sn)), ("literals_read_back", J::arr_s(script.main.literals.iter().cloned())), ("within_word_tables", J::i(script.subs.len() as i64)), ("product_states", J::i(st.states as i64))]));
            }
        }
        Err((cex, _)) => {
            let path = keys.render_path(&cex.path);
            let last = cex.path.last().map(|s| keys.names.name(*s).to_string()).unwrap_or_default();
            let kind = match last.chars().next() {
                Some('L') => "literal",
                Some('C') => "command",
                Some('A') => "compadd",
                Some('S') => "subword",
                _ => "star",
            };
            acc.viol.push((
                format!("tables-differ-{kind}"),
                format!("--{sn} tables describe another automaton than the grammar: after [{path}]: {} (left = reference, right = read back from the script)", cex.why),
                detail(&format!("after [{path}]: {}", cex.why)),
            ));
        }
    }
}

pub fn work(acc: &mut Acc, g: G, shells_: &[Shell]) {
    let text = print_grammar(&g);
    acc.grammars += 1;
    for shell in shells_ {
        match pipe::compile(&text, *shell) {
            Outcome::Ok(c) => check_script(&g, &text, *shell, &c, acc),
            Outcome::Err(_) => acc.rejected += 1,
            Outcome::Panic(p) => acc.viol.push(("crash".into(), format!("pipeline panicked: {p}"), J::obj(vec![("grammar", J::s(&text))]))),
        }
    }
}

/// sharing-biased family: several within-word expressions of equal / different shape
pub fn sharing_family(f: &mut dyn FnMut(G)) {
    let lit = E::lit;
    let w = |p: &str, inner: E| E::Word(vec![lit(p), inner]);
    let alt = |xs: &[&str]| E::Alt(xs.iter().map(|x| lit(x)).collect());
    let inners: Vec<E> = vec![
        alt(&["one", "two"]),
        alt(&["red", "blue"]),
        alt(&["a", "b", "c"]),
        E::Alt(vec![E::litd("x", "dx"), lit("y")]),
        E::Alt(vec![lit("x"), E::litd("y", "dy")]),
        E::Seq(vec![alt(&["p", "q"]), E::Opt(Box::new(alt(&[",r", ",s"])))]),
        E::cmd("echo k1"),
        E::cmd("echo k2"),
        E::r("U"),
        E::r("PATH"),
        E::r("DIRECTORY"),
        E::Fb(vec![lit("f1"), lit("f2")]),
        E::Fb(vec![lit("g1"), E::cmd("echo k1")]),
        E::Many(Box::new(alt(&["m", "n"]))),
    ];
    let prefixes = ["--alpha=", "--bravo=", "--charl=", "--delta="];
    for i in 0..inners.len() {
        for j in 0..inners.len() {
            let a = w(prefixes[0], inners[i].clone());
            let b = w(prefixes[1], inners[j].clone());
            f(call(E::Alt(vec![a.clone(), b.clone()])));
            if (i + j) % 3 == 0 {
                f(call(E::Seq(vec![a.clone(), E::Fb(vec![b.clone(), lit("z")]), E::cmd("echo top")])));
                let c = w(prefixes[2], inners[(i + j) % inners.len()].clone());
                f(call(E::Alt(vec![a.clone(), E::Fb(vec![lit("first"), b.clone()]), c])));
            }
        }
    }
    // words whose tables coincide as flat number streams although the items differ in kind
    // (literal id k vs command id k): the word's command must not be the grammar's first one
    let words2: Vec<E> = vec![
        E::Word(vec![lit("--level"), E::Opt(Box::new(lit("=high")))]),
        E::Word(vec![lit("--user="), E::cmd("echo k1")]),
        E::Word(vec![lit("--mode"), E::Opt(Box::new(E::Word(vec![lit("="), alt(&["fast", "slow"])])))]),
        E::Word(vec![lit("--who="), E::cmd("echo k2")]),
        E::Word(vec![lit("--path="), E::r("PATH")]),
        E::Word(vec![lit("--depth"), E::Opt(Box::new(lit("=1"))), E::Opt(Box::new(lit("k")))]),
    ];
    // command bodies with comment lines and several lines (the function body is the text)
    for c in ["# list\necho alpha\necho beta", "echo a # tail", "echo a\n# middle\necho b", "echo a; }; echo b; {"] {
        f(call(E::Seq(vec![E::cmd(c), lit("t")])));
        f(call(E::Seq(vec![E::Word(vec![lit("--k="), E::cmd(c)]), lit("t")])));
    }
    // a word with a placeholder, a word without, and a top-level placeholder (bash: a table a
    // wrapper does not declare is read from the caller)
    for (x, y) in [(E::Word(vec![lit("a"), alt(&["b", "c"])]), E::Word(vec![lit("d"), E::r("U")])), (E::Word(vec![lit("d"), E::r("U")]), E::Word(vec![lit("a"), alt(&["b", "c"])]))] {
        f(call(E::Seq(vec![E::Alt(vec![x.clone(), y.clone()]), E::Alt(vec![E::r("V"), lit("zzz")])])));
        f(call(E::Seq(vec![E::Alt(vec![E::r("V"), lit("zzz")]), E::Alt(vec![x.clone(), y.clone()])])));
        f(call(E::Seq(vec![lit("s"), E::Alt(vec![x.clone(), y.clone()]), E::Opt(Box::new(E::r("V"))), lit("t")])));
    }
    for x in &words2 {
        for y in &words2 {
            if x == y {
                continue;
            }
            f(call(E::Alt(vec![x.clone(), y.clone()])));
            f(call(E::Alt(vec![E::cmd("echo top"), x.clone(), y.clone()])));
            f(call(E::Alt(vec![E::Seq(vec![E::cmd("echo top"), E::cmd("echo second")]), x.clone(), y.clone()])));
        }
    }
    // built-ins / shell-specific definitions at different || levels inside equal shapes (zsh compadd)
    f(G {
        stmts: vec![
            Stmt::Call { name: "cmd".into(), expr: E::Alt(vec![w("--a=", E::Fb(vec![E::r("PATH"), E::r("X")])), w("--b=", E::Fb(vec![E::r("X"), E::r("PATH")])), w("--c=", E::Fb(vec![E::r("DIRECTORY"), E::r("X")]))]) },
            spec("X", "zsh", "_users"),
            spec("X", "bash", "compgen -u"),
            def("X", E::cmd("echo plain")),
        ],
    });
}

pub fn run(tier: Tier) -> Report {
    let mut rep = Report::new("C04", tier, "model_checking");
    let all: Vec<Shell> = SHELLS.iter().map(|(s, _)| *s).collect();
    let k = tier.pick(5, 6);
    let n = crate::par::nthreads();
    let accs = crate::par::run(
        n,
        |push| {
            for g in crate::corpus::grammars() {
                push(g);
            }
            sharing_family(&mut |g| push(g));
            crate::fam::nested_words(&mut |g| push(g));
            crate::fam::described_twins(&mut |g| push(g));
            crate::fam::deep_shapes(&mut |g| push(g));
            crate::fam::order_sensitive(&mut |g| push(g));
            crate::fam::with_defs(3, 2, 2, &mut |g| push(g));
            for nd in 2..=4 {
                crate::fam::def_dags(nd, &mut |g| push(g));
            }
            crate::fam::single_call(crate::fam::v0(), k, &mut |g| push(g));
        },
        || Acc { samples: Some(Samples::new(3)), ..Default::default() },
        |acc, g| work(acc, g, &all),
    );
    let mut t = Acc { samples: Some(Samples::new(12)), ..Default::default() };
    for a in accs {
        t.grammars += a.grammars;
        t.scripts += a.scripts;
        t.states += a.states;
        t.transitions += a.transitions;
        t.with_shared += a.with_shared;
        t.history_states += a.history_states;
        t.history_transitions += a.history_transitions;
        t.with_sub += a.with_sub;
        t.rejected += a.rejected;
        t.viol.extend(a.viol);
        t.machinery.extend(a.machinery);
        if let (Some(x), Some(s)) = (t.samples.as_mut(), a.samples) {
            x.merge(s);
        }
    }
    if let Some(m) = t.machinery.first() {
        eprintln!("machinery failure ({} scripts): {m}", t.machinery.len());
        std::process::exit(2);
    }
    for (k, s, d) in &t.viol {
        rep.violation(k, s.clone(), d.clone());
    }
    rep.cov("states", J::i(t.states as i64));
    rep.cov("transitions", J::i(t.transitions as i64));
    rep.cov("traces_validated_against_impl", J::i(0));
    rep.cov("grammars_enumerated", J::i(t.grammars as i64));
    rep.cov("scripts_read_back", J::i(t.scripts as i64));
    rep.cov("scripts_with_within_word_tables", J::i(t.with_sub as i64));
    rep.cov("scripts_with_shared_table_sets", J::i(t.with_shared as i64));
    rep.cov("fish_global_table_history_states", J::i(t.history_states as i64));
    rep.cov("fish_global_table_history_transitions", J::i(t.history_transitions as i64));
    rep.cov(
        "rule",
        J::s(format!(
            "exhaustive: all trees <= {k} nodes over V0 as `cmd E`, the definition families and DAGs, the order-sensitive family, a sharing-biased family (all pairs of 14 within-word bodies of equal and different shape, with descriptions, commands, placeholders, built-ins and || inside, in |, || and sequences), the corpus; x 4 emitters. Every script is read back by the per-shell reader (own quoting rules, own index base; wrapper -> shared shape function resolved), an automaton is rebuilt from the tables (literal text, description, level per candidate table, command function bodies, within-word tables by canonical form) and the complete product with the REFERENCE automaton is explored (acceptance not compared: the scripts do not carry accepting states). Candidate tables and transition tables must list exactly the same (state, item) pairs; the registration line must name the command. fish keeps within-word tables in --global variables: for every fish script with 2..6 within-word automata all call histories of length <= 3 of the wrapper functions (at both call sites, with the resets the script performs there) are explored breadth-first on the variable map, and after the last call the variables the matcher reads must equal those of a fresh call. states/transitions = product states/edges."
        )),
    );
    rep.cov("exhaustive", J::Bool(true));
    rep.cov("samples", J::Arr(t.samples.map(|s| s.items).unwrap_or_default()));
    rep.assume("per-shell readers and double-quote decoders (harness/src/shells.rs) implement the documented quoting rules of bash/zsh/fish/PowerShell; fish/zsh/pwsh are not installed, so their scripts are read, not executed");
    rep
}
