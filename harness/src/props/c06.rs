//! C06 — the compiler never crashes or hangs: script + exit 0, or diagnostic + exit 1.
//!
//! Deviation-bounded fault enumeration: every single token/byte-level deviation of every seed
//! (double deviations for tiny seeds), at two levels: the library pipeline inside disposable
//! worker processes (a dying or stalling worker pinpoints its input), and the real binary.

use crate::binrun::{self, Invocation, Scratch};
use crate::json::J;
use crate::lex::{lex, Piece, TokKind};
use crate::pipe::{self, Outcome, SHELLS};
use crate::report::{Report, Samples, Tier};
use std::collections::{BTreeMap, BTreeSet};
use std::io::Write;
use std::time::{Duration, Instant};

pub fn seeds() -> Vec<(String, String)> {
    let mut v: Vec<(String, String)> = vec![];
    for (n, t) in crate::corpus::TEXTS {
        v.push((n.to_string(), t.to_string()));
    }
    for (n, t) in crate::corpus::examples() {
        v.push((n, t));
    }
    let extra: &[(&str, &str)] = &[
        ("err-parse", "cmd (a;\n"),
        ("err-missing", "<X> = a;\n"),
        ("err-invalid-name", "/bin/cmd a;\n"),
        ("err-varying", "cmd a;\ndmc b;\n"),
        ("err-cycle", "cmd <A>;\n<A> = <B>;\n<B> = x <A>;\n"),
        ("err-cycle-unreached", "cmd <B>;\n<A> = x;\n<B> = <C>;\n<C> = <B>;\n"),
        ("err-duplicate", "cmd <A>;\n<A> = a;\n<A> = b;\n"),
        ("err-unknown-shell", "cmd <A>;\n<A@tcsh> = {{{ x }}};\n"),
        ("err-noncommand-spec", "cmd <A>;\n<A@bash> = foo;\n"),
        ("err-unbounded", "cmd <A>x;\n"),
        ("err-conflict", "cmd (a \"x\" | a \"y\");\n"),
        ("err-conflict-path", "cmd p q (a \"x\" | a \"y\") r;\n"),
        ("err-conflict-after-word", "cmd --foo=<X> (a \"x\" | a \"y\");\n"),
        ("err-conflict-after-word2", "cmd p --o=(u|v) [q] (a \"x\" | a \"y\");\n"),
        ("err-conflict-after-command", "cmd {{{ echo c }}} <U> (a \"x\" | a \"y\");\n"),
        ("err-conflict-inside-word", "cmd k=(a \"x\" | a \"y\") t;\n"),
        ("err-conflict-after-spec", "cmd <P> <PATH> (a \"x\" | a \"y\");\n<P@bash> = {{{ echo p }}};\n<P@zsh> = {{{ _p }}};\n"),
        ("err-subword-spaces", "cmd x=<A> y;\n<A> = <B>;\n<B> = a b;\n"),
        ("err-subword-spaces-multiline", "cmd --very-long-option-name=<A>;\n<A> = quit \"descr that\ncontinues\" -f;\n"),
        ("warn-undefined", "cmd <UNDEF> [<_>];\n"),
        ("warn-unused", "cmd a;\n<X> = b;\n<Y@bash> = {{{ c }}};\n"),
        ("multi-line", "cmd a\n  (b\n  | c \"d\n e\")\n  [<X>]...\n;\n<X> ::= {{{ printf '%s\\n' 'x y'\n  echo z }}};\n"),
        ("escapes", "cmd foo\\.bar \\(x\\) a\\|b \"de\\\"s\\\\c\" x\\\\ ..\\. ;\n"),
        ("non-ascii", "cmd a \"d\u{e9}scr \u{201c}q\u{201d}\" {{{ echo \u{e9} }}};\n"),
        ("non-ascii-before-warning", "cmd --greet \"za\u{17c}\u{f3}\u{142}\u{107} g\u{119}\u{15b}l\u{105} ja\u{17a}\u{144}\" <WHO> [--verbose | --quiet];\n"),
        ("non-ascii-before-error", "cmd <A>;\n<A> ::= (x \"\u{105}\u{119}\u{107}\u{17c}\u{f3}\u{142}\u{144}\u{15b}\") | y; <A> ::= z;\n"),
        ("non-ascii-before-unused", "cmd a \"\u{e9}\u{e9}\u{e9}\u{e9}\"; <X> = b; <Y@bash> = {{{ \u{e9} }}};\n"),
        ("nested-word-fallback", "cmd --sort=((name|size)-(asc|desc) || none) t;\n"),
        ("nested-word-fallback-defs", "cmd --sort=(<KEY> || none);\n<KEY> ::= <FIELD>-<DIR>;\n<FIELD> ::= name | size;\n<DIR> ::= asc | desc;\n"),
        ("comments", "# head\ncmd a # tail\n  b; # after\n\u{c}\n# end"),
        ("fallbacks", "cmd (a || b c || [d] e) ((f | g)... || <PATH>);\n"),
        ("subwords", "cmd --a=(b|c) x[y]z --u={{{ echo q }}} <P>=<DIRECTORY> k=<U>;\n<P> = p | pp;\n"),
        ("specs", "cmd <U> <V>;\n<U@bash> = {{{ b }}};\n<U@fish> = {{{ f }}};\n<U@zsh> = {{{ z }}};\n<U@pwsh> = {{{ p }}};\n<U> = {{{ g }}};\n<V> = <U>...;\n"),
        ("tiny1", "c a;"),
        ("tiny2", "c <A>;<A>=b"),
        ("tiny3", "c a|b"),
        ("tiny4", "c x=(a)"),
        ("tiny5", "c [a]... \"d\""),
        ("tiny6", "c {{{ e }}}"),
        ("tiny7", "c a||b"),
        ("empty", ""),
    ];
    for (n, t) in extra {
        v.push((n.to_string(), t.to_string()));
    }
    v
}

const INSERTS: [&str; 22] = [
    "(", ")", "[", "]", "<", ">", "|", "||", ";", "...", "\\", "\"", "{{{", "}}}", "@", "=", "::=", "#", "\n", "\u{c}", "\u{e9}", "\u{0}",
];

/// every single deviation of `text`
pub fn deviations(text: &str, f: &mut dyn FnMut(String, String)) {
    let toks = lex(text);
    let sig: Vec<usize> = toks.iter().enumerate().filter(|(_, p)| p.kind != TokKind::Blank).map(|(i, _)| i).collect();
    let build = |ps: &[Piece]| crate::lex::join(ps);
    // delete / duplicate token
    for &i in &sig {
        let mut t = toks.clone();
        t.remove(i);
        f(format!("delete token {i} {:?}", toks[i].text), build(&t));
        let mut t = toks.clone();
        t.insert(i, toks[i].clone());
        f(format!("duplicate token {i} {:?}", toks[i].text), build(&t));
    }
    // swap adjacent significant tokens
    for w in sig.windows(2) {
        let mut t = toks.clone();
        t.swap(w[0], w[1]);
        f(format!("swap tokens {} and {}", w[0], w[1]), build(&t));
    }
    // truncate after every byte (at char boundaries)
    for (j, _) in text.char_indices() {
        f(format!("truncate after byte {j}"), text[..j].to_string());
    }
    // insert each fragment before every significant token and at the end
    for &i in sig.iter().chain(std::iter::once(&toks.len())) {
        for ins in INSERTS {
            let mut t = toks.clone();
            t.insert(i, Piece { kind: TokKind::Punct, text: ins.to_string() });
            f(format!("insert {ins:?} before token {i}"), build(&t));
        }
    }
    // rename a nonterminal occurrence to every other nonterminal spelled in the text
    let names: BTreeSet<String> = toks.iter().filter(|p| p.kind == TokKind::Nonterm).map(|p| p.text.clone()).collect();
    for (i, p) in toks.iter().enumerate() {
        if p.kind != TokKind::Nonterm {
            continue;
        }
        for n in &names {
            if *n != p.text {
                let mut t = toks.clone();
                t[i].text = n.clone();
                f(format!("rename token {i} {} -> {}", p.text, n), build(&t));
            }
        }
    }
    // drop a whole statement (pieces up to and including a `;`)
    let mut start = 0;
    for (i, p) in toks.iter().enumerate() {
        if p.kind == TokKind::Punct && p.text == ";" {
            let mut t = toks.clone();
            t.drain(start..=i);
            f(format!("drop statement ending at token {i}"), build(&t));
            start = i + 1;
        }
    }
    // move a description onto the next line; break a description over two lines
    for (i, p) in toks.iter().enumerate() {
        if p.kind == TokKind::Descr {
            let mut t = toks.clone();
            t.insert(i, Piece { kind: TokKind::Blank, text: "\n".into() });
            f(format!("description {i} on its own line"), build(&t));
            if p.text.chars().count() >= 3 {
                let mut t = toks.clone();
                let cs: Vec<char> = p.text.chars().collect();
                let mid = cs.len() / 2;
                let s: String = cs[..mid].iter().collect::<String>() + "\n" + &cs[mid..].iter().collect::<String>();
                t[i].text = s;
                f(format!("description {i} broken over two lines"), build(&t));
            }
        }
    }
    // every blank replaced by a newline (multi-line statements)
    for (i, p) in toks.iter().enumerate() {
        if p.kind == TokKind::Blank && !p.text.contains('\n') {
            let mut t = toks.clone();
            t[i].text = "\n".into();
            f(format!("blank {i} -> newline"), build(&t));
        }
    }
}

fn raw_strings(f: &mut dyn FnMut(String, String)) {
    let alpha: Vec<char> = "a0 \n\t\u{c}()[]<>|;\"{}\\.#$`'*!~&@=:,-/?^_%+\u{e9}\u{0}".chars().collect();
    for a in &alpha {
        f(format!("raw 1-char {a:?}"), a.to_string());
        for b in &alpha {
            f(format!("raw 2-char {a:?}{b:?}"), format!("{a}{b}"));
        }
    }
    // a command name followed by each pair
    for a in &alpha {
        for b in &alpha {
            f(format!("cmd + {a:?}{b:?}"), format!("c {a}{b}"));
        }
    }
}

// ---------------------------------------------------------------------------------------------
// Level L inside worker processes
// ---------------------------------------------------------------------------------------------

fn span_shape(text: &str, sp: &complgen::parse::HumanSpan) -> String {
    let lines: Vec<&str> = text.lines().collect();
    if sp.line == 0 || sp.line > lines.len() {
        return format!("line-out-of-range({}/{})", sp.line, lines.len());
    }
    let len = lines[sp.line - 1].len();
    if sp.column_start == 0 {
        return "col0".into();
    }
    if sp.column_end < sp.column_start {
        return "end<start".into();
    }
    if sp.column_start - 1 > len {
        return "start-beyond-line".into();
    }
    if sp.column_end - 1 > len + 1 {
        return "end-beyond-line".into();
    }
    if sp.line == lines.len() && sp.column_start - 1 >= len {
        return "at-eof".into();
    }
    "ok".into()
}

fn error_spans(e: &complgen::Error) -> Vec<complgen::parse::HumanSpan> {
    use complgen::Error::*;
    match e {
        ParseError(s) | InvalidCommandName(s) | UnknownShell(s) | NonCommandSpecialization(s) => vec![*s],
        VaryingCommandNames(v) | NonterminalDefinitionsCycle(v) => v.to_vec(),
        DuplicateNonterminalDefinition(a, b) | UnboundedMatchable(a, b) => vec![*a, *b],
        SubwordSpaces(a, b, t) => {
            let mut v = vec![*a, *b];
            v.extend(t.iter().copied());
            v
        }
        _ => vec![],
    }
}

/// outcome code of one input at library level (all four shells, emitters and both DOT writers)
pub fn eval_lib(text: &str) -> String {
    let mut codes: Vec<String> = vec![];
    // parsing does not depend on the shell: do it once when it fails
    match pipe::guarded(|| complgen::parse::Grammar::parse(text)) {
        Ok(Err(e)) => {
            let shapes: BTreeSet<String> = error_spans(&e).iter().map(|s| span_shape(text, s)).collect();
            return format!("E:{}[{}]", pipe::error_kind(&e), shapes.into_iter().collect::<Vec<_>>().join(","));
        }
        Err(p) => return format!("PANIC {}", p.replace('\n', " ")),
        Ok(Ok(_)) => {}
    }
    for (shell, sn) in SHELLS {
        let code = match pipe::compile(text, shell) {
            Outcome::Ok(c) => {
                let mut fails = vec![];
                match pipe::emit(&c, shell) {
                    Ok(b) if !b.is_empty() => {}
                    Ok(_) => fails.push("empty script".to_string()),
                    Err(e) => fails.push(e),
                }
                if let Err(e) = pipe::dfa_dot(&c, shell) {
                    fails.push(e)
                }
                if let Err(e) = pipe::regex_dot(&c) {
                    fails.push(e)
                }
                let mut shapes = BTreeSet::new();
                for (_, sp) in c.undefined.iter().chain(c.unused.iter()).chain(c.unused_specs.iter()) {
                    shapes.insert(span_shape(text, sp));
                }
                if fails.is_empty() {
                    format!("OK[{}]", shapes.into_iter().collect::<Vec<_>>().join(","))
                } else {
                    format!("FAIL {}", fails.join("; ").replace('\n', " "))
                }
            }
            Outcome::Err(e) => {
                let shapes: BTreeSet<String> = error_spans(&e).iter().map(|s| span_shape(text, s)).collect();
                format!("E:{}[{}]", pipe::error_kind(&e), shapes.into_iter().collect::<Vec<_>>().join(","))
            }
            Outcome::Panic(p) => format!("PANIC {}", p.replace('\n', " ")),
        };
        codes.push(format!("{sn}={code}"));
    }
    // collapse when all shells agree
    let first = codes[0].split_once('=').unwrap().1.to_string();
    if codes.iter().all(|c| c.split_once('=').unwrap().1 == first) {
        first
    } else {
        codes.join(" | ")
    }
}

pub fn worker_main(infile: &str, outfile: &str) {
    let data = std::fs::read(infile).expect("read worker input");
    let mut out = std::fs::OpenOptions::new().create(true).append(true).open(outfile).expect("open worker output");
    let mut pos = 0usize;
    let mut idx = 0usize;
    // run on a big stack so that only runaway recursion overflows
    let h = std::thread::Builder::new()
        .stack_size(64 << 20)
        .spawn(move || {
            while pos + 4 <= data.len() {
                let len = u32::from_le_bytes(data[pos..pos + 4].try_into().unwrap()) as usize;
                pos += 4;
                let text = String::from_utf8_lossy(&data[pos..pos + len]).to_string();
                pos += len;
                let _ = writeln!(out, "B {idx}");
                let code = eval_lib(&text);
                let _ = writeln!(out, "D {idx} {code}");
                idx += 1;
            }
        })
        .unwrap();
    let _ = h.join();
}

struct LibOutcome {
    code: String, // eval_lib code, or CRASH.../HANG
}

/// run `inputs` through worker processes; returns one outcome per input
fn run_workers(inputs: &[String], scratch: &Scratch, nworkers: usize, stall: Duration) -> Vec<LibOutcome> {
    let exe = std::env::current_exe().expect("current exe");
    let mut results: Vec<Option<LibOutcome>> = (0..inputs.len()).map(|_| None).collect();
    // chunk list: (start, end)
    let chunk = 1500usize;
    let mut pending: Vec<(usize, usize)> = vec![];
    let mut s = 0;
    while s < inputs.len() {
        let e = (s + chunk).min(inputs.len());
        pending.push((s, e));
        s = e;
    }
    pending.reverse();
    struct Running {
        child: std::process::Child,
        start: usize,
        end: usize,
        outfile: std::path::PathBuf,
        infile: std::path::PathBuf,
        last_size: u64,
        last_change: Instant,
    }
    let mut running: Vec<Running> = vec![];
    let mut serial = 0usize;
    loop {
        while running.len() < nworkers {
            let Some((a, b)) = pending.pop() else { break };
            serial += 1;
            let infile = scratch.path(&format!("w{serial}.in"));
            let outfile = scratch.path(&format!("w{serial}.out"));
            let mut buf: Vec<u8> = vec![];
            for t in &inputs[a..b] {
                buf.extend((t.len() as u32).to_le_bytes());
                buf.extend(t.as_bytes());
            }
            std::fs::write(&infile, buf).unwrap();
            let _ = std::fs::remove_file(&outfile);
            let child = std::process::Command::new(&exe)
                .arg("c06-worker")
                .arg(&infile)
                .arg(&outfile)
                .stdin(std::process::Stdio::null())
                .stdout(std::process::Stdio::null())
                .stderr(std::process::Stdio::null())
                .spawn()
                .expect("spawn worker");
            running.push(Running { child, start: a, end: b, outfile, infile, last_size: 0, last_change: Instant::now() });
        }
        if running.is_empty() {
            break;
        }
        std::thread::sleep(Duration::from_millis(20));
        let mut i = 0;
        while i < running.len() {
            let r = &mut running[i];
            let size = std::fs::metadata(&r.outfile).map(|m| m.len()).unwrap_or(0);
            if size != r.last_size {
                r.last_size = size;
                r.last_change = Instant::now();
            }
            let status = r.child.try_wait().ok().flatten();
            let stalled = status.is_none() && r.last_change.elapsed() > stall;
            if status.is_none() && !stalled {
                i += 1;
                continue;
            }
            if stalled {
                let _ = r.child.kill();
                let _ = r.child.wait();
            }
            // parse progress
            let text = std::fs::read_to_string(&r.outfile).unwrap_or_default();
            let mut begun: Option<usize> = None;
            let mut done = 0usize;
            for line in text.lines() {
                if let Some(rest) = line.strip_prefix("B ") {
                    begun = rest.trim().parse().ok();
                } else if let Some(rest) = line.strip_prefix("D ") {
                    if let Some((idx, code)) = rest.split_once(' ') {
                        if let Ok(k) = idx.parse::<usize>() {
                            if r.start + k < r.end {
                                results[r.start + k] = Some(LibOutcome { code: code.to_string() });
                                done = k + 1;
                            }
                        }
                    }
                }
            }
            let total = r.end - r.start;
            if done < total {
                // the input that was begun but not finished is the culprit
                let culprit = begun.unwrap_or(done).max(done);
                let why = if stalled {
                    "HANG no progress within the stall limit".to_string()
                } else {
                    use std::os::unix::process::ExitStatusExt;
                    let st = status.unwrap();
                    format!("CRASH worker died: code {:?} signal {:?}", st.code(), st.signal())
                };
                if r.start + culprit < r.end {
                    results[r.start + culprit] = Some(LibOutcome { code: why });
                    if r.start + culprit + 1 < r.end {
                        pending.push((r.start + culprit + 1, r.end));
                    }
                }
            }
            let _ = std::fs::remove_file(&r.outfile);
            let _ = std::fs::remove_file(&r.infile);
            running.swap_remove(i);
        }
    }
    results.into_iter().map(|r| r.unwrap_or(LibOutcome { code: "MISSING".into() })).collect()
}

// ---------------------------------------------------------------------------------------------
// Level B: the binary
// ---------------------------------------------------------------------------------------------

fn trailer_ok(shell: &str, script: &[u8], cmd_hint: Option<&str>) -> bool {
    let s = String::from_utf8_lossy(script);
    let last = s.lines().rev().find(|l| !l.trim().is_empty()).unwrap_or("");
    match shell {
        "bash" => last.starts_with("complete -o nospace -F _") && cmd_hint.map(|c| last.ends_with(&format!(" {c}"))).unwrap_or(true),
        "fish" => last.starts_with("complete --command ") && last.contains("--arguments"),
        "zsh" => last == "fi",
        "pwsh" => last == "}",
        _ => false,
    }
}

#[derive(Clone, Copy, PartialEq, Eq, Debug)]
enum Dest {
    Fresh,
    Sentinel,
    Stdout,
    /// a destination that accepts the open but fails every write (`/dev/full`)
    Full,
}

const SENTINEL: &[u8] = b"SENTINEL previous content\n";

/// one binary run judged by the C06 oracle; returns Err(key, summary, detail)
fn judge_binary(text: &[u8], shell: &str, dest: Dest, scratch: &Scratch, versions: &(String, String)) -> Result<String, (String, String, J)> {
    let inpath = scratch.path("input.usage");
    std::fs::write(&inpath, text).unwrap();
    let outpath = scratch.path(&format!("out-{shell}.script"));
    let _ = std::fs::remove_file(&outpath);
    if dest == Dest::Sentinel {
        std::fs::write(&outpath, SENTINEL).unwrap();
    }
    let dest_arg = match dest {
        Dest::Stdout => "-".to_string(),
        Dest::Full => "/dev/full".to_string(),
        _ => outpath.to_string_lossy().to_string(),
    };
    let inv = Invocation::new(vec![format!("--{shell}"), dest_arg, inpath.to_string_lossy().to_string()]);
    let r = binrun::run(&inv, scratch);
    let dest_content = if dest == Dest::Stdout || dest == Dest::Full { None } else { std::fs::read(&outpath).ok() };
    let _ = std::fs::remove_file(&outpath);
    let text_s = String::from_utf8_lossy(text).to_string();
    let detail = |why: &str| {
        J::obj(vec![
            ("input", J::s(&text_s)),
            ("input_bytes_hex", J::s(text.iter().take(400).map(|b| format!("{b:02x}")).collect::<String>())),
            ("shell", J::s(shell)),
            ("destination", J::s(format!("{dest:?}"))),
            ("outcome", J::s(r.describe())),
            ("stderr", J::s(String::from_utf8_lossy(&r.stderr).chars().take(600).collect::<String>())),
            ("why", J::s(why)),
            ("reproduce", J::s(format!("complgen --{shell} {} FILE   # FILE holds `input`", if dest == Dest::Stdout { "-" } else { "OUT" }))),
        ])
    };
    let stderr = String::from_utf8_lossy(&r.stderr).to_string();
    if r.timed_out {
        return Err(("hang".into(), format!("complgen --{shell} did not terminate within 60 s"), detail("timeout")));
    }
    let code = match r.status {
        Some(c) => c,
        None => return Err(("killed-by-signal".into(), format!("complgen --{shell} {}", r.describe()), detail("signal"))),
    };
    if stderr.contains("panicked") || stderr.contains("overflowed its stack") {
        return Err(("panic".into(), format!("complgen --{shell} panicked ({})", r.describe()), detail("panic message on stderr")));
    }
    if code != 0 && code != 1 {
        return Err((format!("exit-status-{code}"), format!("complgen --{shell} exited with status {code}"), detail("status")));
    }
    if dest == Dest::Full {
        // nothing can have been written: success is impossible, a diagnostic is due (for a
        // grammar with a mistake the ordinary diagnostic comes first and the device is never opened)
        if code == 0 {
            return Err(("success-without-script".into(), format!("complgen --{shell} exited 0 although every write to the destination failed (device full): no script was written"), detail("/dev/full")));
        }
        if r.stderr.is_empty() {
            return Err(("failure-without-diagnostic".into(), format!("complgen --{shell} exited 1 with empty stderr"), detail("stderr")));
        }
        return Ok("full".into());
    }
    if code == 0 {
        let script: Vec<u8> = match dest {
            Dest::Stdout => r.stdout.clone(),
            _ => match dest_content {
                Some(c) => c,
                None => return Err(("success-without-script".into(), format!("complgen --{shell} exited 0 but wrote no destination file"), detail("missing file"))),
            },
        };
        if script.is_empty() || !trailer_ok(shell, &script, None) {
            return Err(("incomplete-script".into(), format!("complgen --{shell} exited 0 but the script is empty or lacks its registration trailer"), detail("trailer")));
        }
        if dest != Dest::Stdout && !r.stdout.is_empty() {
            return Err(("stray-stdout".into(), format!("complgen --{shell} wrote to stdout although the destination is a file"), detail("stdout")));
        }
        // binding L <-> B: same bytes as the library pipeline
        if let Ok(t) = std::str::from_utf8(text) {
            let shell_e = SHELLS.iter().find(|(_, n)| *n == shell).unwrap().0;
            if let Outcome::Ok(c) = pipe::compile(t, shell_e) {
                if let Ok(lib) = pipe::emit(&c, shell_e) {
                    let a = binrun::normalise_version(&lib, &versions.0);
                    let b = binrun::normalise_version(&script, &versions.1);
                    if a != b {
                        return Err(("binary-differs-from-library".into(), format!("script written by the binary differs from the library pipeline's for --{shell}"), detail("L<->B binding")));
                    }
                }
            } else {
                return Err(("binary-accepts-library-rejects".into(), format!("binary exits 0, library pipeline does not accept, --{shell}"), detail("L<->B binding")));
            }
        }
        Ok("ok".into())
    } else {
        if r.stderr.is_empty() {
            return Err(("failure-without-diagnostic".into(), format!("complgen --{shell} exited 1 with empty stderr"), detail("stderr")));
        }
        if !r.stdout.is_empty() {
            return Err(("failure-with-stdout".into(), format!("complgen --{shell} exited 1 but wrote to stdout"), detail("stdout")));
        }
        match (dest, dest_content) {
            (Dest::Fresh, Some(_)) => return Err(("failure-creates-destination".into(), format!("complgen --{shell} exited 1 but created the destination file"), detail("destination"))),
            (Dest::Sentinel, Some(c)) if c != SENTINEL => {
                return Err(("failure-clobbers-destination".into(), format!("complgen --{shell} exited 1 but changed the existing destination file"), detail("destination")))
            }
            (Dest::Sentinel, None) => return Err(("failure-removes-destination".into(), format!("complgen --{shell} exited 1 and the existing destination file is gone"), detail("destination"))),
            _ => {}
        }
        if let Ok(t) = std::str::from_utf8(text) {
            let shell_e = SHELLS.iter().find(|(_, n)| *n == shell).unwrap().0;
            if let Outcome::Ok(_) = pipe::compile(t, shell_e) {
                return Err(("binary-rejects-library-accepts".into(), format!("binary exits 1, library pipeline accepts, --{shell}"), detail("L<->B binding")));
            }
        }
        Ok("err".into())
    }
}

pub fn run(tier: Tier) -> Report {
    let mut rep = Report::new("C06", tier, "fault_enumeration");
    let scratch = Scratch::new("c06");
    let seeds = seeds();
    // ---- enumerate inputs
    let mut inputs: Vec<String> = vec![];
    let mut origin: Vec<String> = vec![];
    let mut seen: BTreeSet<u64> = BTreeSet::new();
    let mut add = |what: String, text: String, inputs: &mut Vec<String>, origin: &mut Vec<String>| {
        if seen.insert(crate::report::fnv(&text)) {
            inputs.push(text);
            origin.push(what);
        }
    };
    let mut generated = 0u64;
    let big_limit = tier.pick(1500usize, 100_000usize);
    let mut per_seed_singles: BTreeMap<String, Vec<usize>> = BTreeMap::new();
    for (name, text) in &seeds {
        add(format!("seed {name}"), text.clone(), &mut inputs, &mut origin);
        let mut singles: Vec<String> = vec![];
        if text.len() <= big_limit {
            deviations(text, &mut |what, t| {
                generated += 1;
                singles.push(t.clone());
                let before = inputs.len();
                add(format!("seed {name}: {what}"), t, &mut inputs, &mut origin);
                if inputs.len() > before {
                    per_seed_singles.entry(name.clone()).or_default().push(before);
                }
            });
        } else {
            // large seed in the quick tier: token-level deviations only on the first statements,
            // truncations everywhere
            let head: String = text.chars().take(big_limit).collect();
            deviations(&head, &mut |what, t| {
                generated += 1;
                add(format!("seed {name} (first {big_limit} chars): {what}"), t, &mut inputs, &mut origin);
            });
            let step = (text.len() / 250).max(1);
            for (j, _) in text.char_indices().step_by(step) {
                generated += 1;
                add(format!("seed {name}: truncate after byte {j}"), text[..j].to_string(), &mut inputs, &mut origin);
            }
        }
        // second deviation for tiny seeds
        let ntok = lex(text).iter().filter(|p| p.kind != TokKind::Blank).count();
        if ntok <= tier.pick(5, 8) && !text.is_empty() {
            for s in &singles {
                deviations(s, &mut |what, t| {
                    generated += 1;
                    add(format!("seed {name}: double deviation, second: {what}"), t, &mut inputs, &mut origin);
                });
            }
        }
    }
    raw_strings(&mut |what, t| {
        generated += 1;
        add(what, t, &mut inputs, &mut origin);
    });
    let n_inputs = inputs.len();

    // ---- level L in worker processes
    let t_l = Instant::now();
    let outcomes = run_workers(&inputs, &scratch, crate::par::nthreads(), Duration::from_secs(60));
    let wall_l = t_l.elapsed().as_secs_f64();
    let mut code_count: BTreeMap<String, u64> = BTreeMap::new();
    let mut class_rep: BTreeMap<String, usize> = BTreeMap::new();
    let mut lib_viol = 0u64;
    for (i, o) in outcomes.iter().enumerate() {
        let class = o.code.split(" | ").next().unwrap_or("").to_string();
        let class = if class.len() > 80 { class.chars().take(80).collect() } else { class };
        *code_count.entry(class.clone()).or_default() += 1;
        class_rep.entry(class).or_insert(i);
        let bad = o.code.starts_with("CRASH") || o.code.starts_with("HANG") || o.code.contains("PANIC") || o.code.contains("FAIL ") || o.code == "MISSING";
        if bad {
            lib_viol += 1;
            let key = if o.code.starts_with("CRASH") {
                "library-crash"
            } else if o.code.starts_with("HANG") {
                "library-hang"
            } else if o.code.contains("PANIC") {
                "library-panic"
            } else if o.code == "MISSING" {
                "machinery-missing-result"
            } else {
                "library-emitter-failure"
            };
            rep.violation(
                key,
                format!("library pipeline on input from [{}]: {}", origin[i], o.code.chars().take(300).collect::<String>()),
                J::obj(vec![("input", J::s(&inputs[i])), ("origin", J::s(&origin[i])), ("outcome", J::s(&o.code)), ("reproduce", J::s("complgen --bash - FILE (and --fish/--zsh/--pwsh, with --dfa/--regex)"))]),
            );
        }
    }
    let _ = lib_viol;

    // ---- level B
    let versions = (binrun::library_version(), binrun::binary_version(&scratch));
    let mut bin_jobs: Vec<(usize, &'static str, Dest)> = vec![];
    // every seed x 4 shells x 3 destinations
    for (i, o) in origin.iter().enumerate() {
        if o.starts_with("seed ") && !o.contains(':') {
            for (_, sn) in SHELLS {
                for d in [Dest::Fresh, Dest::Sentinel, Dest::Stdout, Dest::Full] {
                    bin_jobs.push((i, sn, d));
                }
            }
        }
    }
    // one representative of every distinct library outcome class (error variant x span shape ...)
    for (_, i) in &class_rep {
        bin_jobs.push((*i, "bash", Dest::Sentinel));
        bin_jobs.push((*i, "zsh", Dest::Fresh));
    }
    // all single deviations of the smallest seeds
    let mut small: Vec<(&String, &Vec<usize>)> = per_seed_singles.iter().collect();
    small.sort_by_key(|(n, v)| (v.len(), (*n).clone()));
    let n_small = tier.pick(8, 40);
    let shells_rr = ["bash", "fish", "zsh", "pwsh"];
    let mut rr = 0usize;
    for (_, idxs) in small.iter().take(n_small) {
        for i in idxs.iter() {
            let sh = shells_rr[rr % 4];
            let d = [Dest::Sentinel, Dest::Fresh, Dest::Stdout][rr % 3];
            rr += 1;
            bin_jobs.push((*i, sh, d));
        }
    }
    // invalid UTF-8 and NUL bytes only exist at this level
    let mut raw_bytes: Vec<Vec<u8>> = vec![vec![0xff], vec![b'c', b' ', 0xc3], b"cmd \xe9;".to_vec(), vec![0xf0, 0x9f], b"cmd a;\n\xff\xfe".to_vec(), vec![]];
    // stress shapes (main-thread stack, not the workers' big one): deep nesting, long chains
    let mut stress: Vec<(String, String)> = vec![];
    for n in [200usize, 300, 3000, 60000] {
        stress.push((format!("stress: {n} nested parentheses"), format!("cmd {}a{};", "(".repeat(n), ")".repeat(n))));
        stress.push((format!("stress: {n} nested brackets"), format!("cmd {}a{};", "[".repeat(n), "]".repeat(n))));
        stress.push((format!("stress: {n} unclosed parentheses"), format!("cmd {}a;", "(".repeat(n))));
    }
    for n in [300usize, 1500, 20000] {
        let mut t = String::from("cmd <A0>;\n");
        for i in 0..n {
            t.push_str(&format!("<A{i}> = x <A{}>;\n", i + 1));
        }
        t.push_str(&format!("<A{n}> = y;\n"));
        stress.push((format!("stress: definition chain of length {n}"), t));
    }
    for n in [2000usize, 20000] {
        stress.push((format!("stress: sequence of {n} words"), format!("cmd {};", (0..n).map(|i| format!("w{i}")).collect::<Vec<_>>().join(" "))));
    }
    stress.push(("stress: 3000 alternatives".into(), format!("cmd {};", (0..3000).map(|i| format!("l{i}")).collect::<Vec<_>>().join(" | "))));
    stress.push(("stress: 400 optional items".into(), format!("cmd {};", (0..400).map(|i| format!("[l{i}]")).collect::<Vec<_>>().join(" "))));
    stress.push(("stress: 2000 repetitions".into(), format!("cmd a{};", " ...".repeat(1))));
    for (_, t) in &stress {
        raw_bytes.push(t.clone().into_bytes());
    }
    let stress_names: Vec<String> = stress.iter().map(|(n, _)| n.clone()).collect();
    let n_plain_raw = raw_bytes.len() - stress.len();
    let n_bin = bin_jobs.len() + raw_bytes.len() * 4;
    let inputs_ref = &inputs;
    let versions_ref = &versions;
    let results = crate::par::run(
        4,
        |push| {
            for j in bin_jobs.iter() {
                push((inputs_ref[j.0].clone().into_bytes(), j.1, j.2, j.0));
            }
            for (k, rb) in raw_bytes.iter().enumerate() {
                for (_, sn) in SHELLS {
                    if k >= n_plain_raw && sn != "bash" && sn != "zsh" {
                        continue;
                    }
                    push((rb.clone(), sn, Dest::Sentinel, usize::MAX - 1 - k));
                }
            }
        },
        || (Scratch::new("c06b"), Vec::<(String, String, J)>::new(), BTreeMap::<String, u64>::new()),
        |st, (text, sn, d, idx): (Vec<u8>, &'static str, Dest, usize)| match judge_binary(&text, sn, d, &st.0, versions_ref) {
            Ok(k) => *st.2.entry(k).or_default() += 1,
            Err(mut v) => {
                // stress inputs: the violation class names the shape, so that a listed known
                // finding covers exactly that shape
                let k = usize::MAX - 1 - idx;
                if idx > usize::MAX / 2 && k >= n_plain_raw && k < n_plain_raw + stress_names.len() {
                    let name = &stress_names[k - n_plain_raw];
                    let shape = name.trim_start_matches("stress: ").trim_start_matches(|c: char| c.is_ascii_digit() || c == ' ').replace(' ', "-");
                    let shape = shape.trim_end_matches(|c: char| c.is_ascii_digit() || c == '-').to_string();
                    v.0 = format!("{}-on-{}", v.0, shape);
                    v.1 = format!("[{name}] {}", v.1);
                }
                st.1.push(v)
            }
        },
    );
    let mut bin_ok: BTreeMap<String, u64> = BTreeMap::new();
    for (_, viols, oks) in results {
        for v in viols {
            rep.violation(&v.0, v.1, v.2);
        }
        for (k, n) in oks {
            *bin_ok.entry(k).or_default() += n;
        }
    }

    let mut samples = Samples::new(10);
    for (i, o) in outcomes.iter().enumerate().step_by((n_inputs / 10).max(1)) {
        samples.offer(|| J::obj(vec![("origin", J::s(&origin[i])), ("input", J::s(inputs[i].chars().take(120).collect::<String>())), ("library_outcome", J::s(o.code.chars().take(100).collect::<String>()))]));
    }
    rep.cov("evaluations", J::i((n_inputs + n_bin) as i64));
    rep.cov("distinct_nontrivial", J::i(n_inputs as i64));
    rep.cov("deviations_generated", J::i(generated as i64));
    rep.cov("seeds", J::i(seeds.len() as i64));
    rep.cov("library_level_inputs_x4_shells", J::i(n_inputs as i64));
    rep.cov("binary_runs", J::i(n_bin as i64));
    rep.cov("wall_s_library_level", J::Num(wall_l));
    rep.cov("binary_outcomes", J::Obj(bin_ok.iter().map(|(k, v)| (k.clone(), J::i(*v as i64))).collect()));
    rep.cov("distinct_library_outcome_classes", J::i(code_count.len() as i64));
    rep.cov("library_outcome_classes", J::Obj(code_count.iter().map(|(k, v)| (k.clone(), J::i(*v as i64))).collect()));
    rep.cov("deviation_bound_completed", J::s(format!("1 for every seed (token-level ops on the first part only for seeds above the size limit in the quick tier), 2 for seeds of <= {} tokens", tier.pick(5, 8))));
    rep.cov(
        "rule",
        J::s("fault enumeration: seeds = corpus + examples/*.usage + one seed per Error variant / warning kind / construct; ALL single deviations of every seed: delete/duplicate each token, swap adjacent tokens, truncate after every byte, insert each of 22 fragments before every token, rename every nonterminal occurrence to every other name, drop each statement, move/break each description over lines, each blank -> newline; all pairs of deviations for seeds <= 8 tokens; all raw strings of length <= 2 over a 45-character alphabet. Level L: library pipeline + 4 emitters + both DOT writers in disposable worker processes (stall limit 60 s; a dead or stalled worker pinpoints its input). Level B: the real binary on every seed x 4 shells x {fresh file, existing file, stdout, a device that fails every write (/dev/full)}, on one representative of every distinct library outcome class (error variant x span shape), on all single deviations of the smallest seeds, and on invalid UTF-8; oracle: terminates, status in {0,1}, 0 => complete script at the destination and equal to the library's bytes, 1 => diagnostic on stderr, nothing on stdout, destination untouched. distinct = distinct input texts."),
    );
    rep.cov("exhaustive", J::Bool(true));
    rep.cov("samples", J::Arr(samples.items));
    rep.assume("a script is 'complete' when it ends with the shell's registration trailer");
    rep.assume("the binary under test is built from /repo's working tree with the verif feature off");
    rep
}
