//! C14 — layout and statement order do not change the output (metamorphic, deviation-bounded).

use crate::ast::*;
use crate::binrun::{self, Scratch};
use crate::json::J;
use crate::pipe::{self, Outcome, Shell, SHELLS};
use crate::report::{Report, Samples, Tier};
use std::collections::BTreeSet;

const SEPS: [&str; 10] = ["", " ", "  ", "\n", "\t", "\u{c}", " # c\n", " #\n", " # a\rb\n", "\r\n"];

fn allowed(sep: &str, glue: Glue) -> bool {
    match glue {
        Glue::Tight => false,
        Glue::Req => !sep.is_empty(),
        Glue::Opt0 | Glue::Opt1 | Glue::Stmt => true,
    }
}

/// preorder ids (as the printer numbers them) of the nodes that are not inside a word
fn outside_word_ids(e: &E) -> Vec<usize> {
    fn rec(e: &E, in_word: bool, counter: &mut usize, out: &mut Vec<usize>) {
        let id = *counter;
        *counter += 1;
        if !in_word {
            out.push(id);
        }
        match e {
            E::Word(cs) => {
                for c in cs {
                    rec(c, true, counter, out);
                }
            }
            _ => {
                for c in e.children() {
                    rec(c, in_word, counter, out);
                }
            }
        }
    }
    let mut out = vec![];
    let mut c = 0;
    rec(e, false, &mut c, &mut out);
    out
}

#[derive(Clone)]
struct Layout {
    assign: Vec<&'static str>,
    last_semicolon: bool,
    /// (statement index, node id)
    parens: Option<(usize, usize)>,
    all_parens: bool,
    /// parenthesise only the literal of a described literal: `(lit) "d"`
    inner: bool,
}

fn tokens(g: &G, lay: &Layout) -> Vec<Tok> {
    let mut p = Printer::new(DotStyle::Escaped);
    for (i, s) in g.stmts.iter().enumerate() {
        p.parens_inside_description = lay.inner;
        p.extra_parens = match lay.parens {
            Some((si, id)) if si == i => Some(id),
            _ => None,
        };
        let last = i + 1 == g.stmts.len();
        p.stmt(s, i, if i == 0 { Glue::Opt0 } else { Glue::Stmt }, lay.assign.get(i).copied().unwrap_or("="), !last || lay.last_semicolon);
    }
    let _ = lay.all_parens;
    p.toks
}

fn outcome_sig(text: &str, shell: Shell) -> Result<(Vec<u8>, [usize; 3]), String> {
    match pipe::compile(text, shell) {
        Outcome::Ok(c) => {
            let b = pipe::emit(&c, shell)?;
            Ok((b, [c.undefined.len(), c.unused.len(), c.unused_specs.len()]))
        }
        Outcome::Err(e) => Err(format!("rejected: {}", pipe::error_kind(&e))),
        Outcome::Panic(p) => Err(format!("panic: {p}")),
    }
}

#[derive(Default)]
struct Acc {
    evals: u64,
    grammars: u64,
    accepted: u64,
    distinct: BTreeSet<u64>,
    kinds: std::collections::BTreeMap<&'static str, u64>,
    viol: Vec<(String, String, J)>,
    samples: Option<Samples>,
}

fn permutations(n: usize) -> Vec<Vec<usize>> {
    if n == 0 {
        return vec![vec![]];
    }
    let mut out = vec![];
    for p in permutations(n - 1) {
        for i in 0..=p.len() {
            let mut q = p.clone();
            q.insert(i, n - 1);
            out.push(q);
        }
    }
    out
}

fn check_grammar(acc: &mut Acc, g: &G, shells: &[Shell], pairs: bool) {
    acc.grammars += 1;
    let base_lay = Layout { assign: vec!["="; g.stmts.len()], last_semicolon: true, parens: None, all_parens: false, inner: false };
    let base_toks = tokens(g, &base_lay);
    let base_text = render_canonical(&base_toks);
    let mut base: Vec<Option<(Vec<u8>, [usize; 3])>> = vec![];
    let mut any = false;
    for s in shells {
        let r = outcome_sig(&base_text, *s).ok();
        any |= r.is_some();
        base.push(r);
    }
    if !any {
        return;
    }
    acc.accepted += 1;
    let mut variant = |acc: &mut Acc, kind: &'static str, text: String, rot: usize| {
        // every variant for one shell (rotating), the canonical print for all
        let si = rot % shells.len();
        let Some((bytes, warns)) = &base[si] else { return };
        acc.evals += 1;
        *acc.kinds.entry(kind).or_default() += 1;
        acc.distinct.insert(crate::report::fnv(&text));
        let sn = pipe::shell_name(shells[si]);
        match outcome_sig(&text, shells[si]) {
            Ok((b, w)) => {
                if &b != bytes {
                    acc.viol.push((
                        format!("output-changes-{kind}"),
                        format!("{kind}: the --{sn} script differs from the canonical layout's"),
                        J::obj(vec![("canonical", J::s(&base_text)), ("variant", J::s(&text)), ("shell", J::s(sn)), ("kind", J::s(kind))]),
                    ));
                } else if &w != warns {
                    acc.viol.push((
                        format!("warnings-change-{kind}"),
                        format!("{kind}: the number of warnings per kind changes ({warns:?} -> {w:?})"),
                        J::obj(vec![("canonical", J::s(&base_text)), ("variant", J::s(&text)), ("shell", J::s(sn))]),
                    ));
                } else if let Some(s) = acc.samples.as_mut() {
                    s.offer(|| J::obj(vec![("kind", J::s(kind)), ("variant", J::s(&text))]));
                }
            }
            Err(e) => acc.viol.push((
                format!("verdict-changes-{kind}"),
                format!("{kind}: the re-laid-out grammar is {e} for --{sn}"),
                J::obj(vec![("canonical", J::s(&base_text)), ("variant", J::s(&text)), ("shell", J::s(sn)), ("kind", J::s(kind))]),
            )),
        }
    };
    let mut rot = 0usize;
    // separators at every gap
    // large corpus grammars: one (rotating) separator per gap instead of all, every 9th gap for
    // the very large ones (the exhaustive claim is for the enumerated families)
    let big = base_toks.len() > 150;
    let huge = base_toks.len() > 1200;
    for i in 1..base_toks.len() {
        if (huge && i % 300 != 0) || (big && !huge && i % 4 != 0) {
            continue;
        }
        for (k, sep) in SEPS.iter().enumerate() {
            let sep = *sep;
            if big && k != i % SEPS.len() {
                continue;
            }
            if !allowed(sep, base_toks[i].glue) {
                continue;
            }
            if canonical_gap(base_toks[i].glue, false) == sep {
                continue;
            }
            rot += 1;
            let text = render_with(&base_toks, |j, _| if j == i { Some(sep.to_string()) } else { None });
            variant(acc, "separator", text, rot);
            if pairs {
                for i2 in (i + 1)..base_toks.len() {
                    for sep2 in [" # c\n", "\n", "\u{c}"] {
                        if !allowed(sep2, base_toks[i2].glue) {
                            continue;
                        }
                        rot += 1;
                        let text = render_with(&base_toks, |j, _| {
                            if j == i {
                                Some(sep.to_string())
                            } else if j == i2 {
                                Some(sep2.to_string())
                            } else {
                                None
                            }
                        });
                        variant(acc, "separator-pair", text, rot);
                    }
                }
            }
        }
    }
    // leading / trailing blanks and comments
    for (pre, post) in [("\n\n", ""), ("# head\n", ""), ("", "\n# tail"), ("\u{c}", "\n\n"), ("#\n#\n", ""), ("", "\n#"), ("# a\rb\n", "\r\n")] {
        rot += 1;
        variant(acc, "leading-trailing", format!("{pre}{base_text}{post}"), rot);
    }
    // ::= for each definition, all at once; no final semicolon
    let assign_step = if g.stmts.len() > 12 { g.stmts.len() / 6 } else { 1 };
    for (i, s) in g.stmts.iter().enumerate() {
        if matches!(s, Stmt::Def { .. }) && i % assign_step == 0 {
            let mut lay = base_lay.clone();
            lay.assign[i] = "::=";
            rot += 1;
            variant(acc, "assign-spelling", render_canonical(&tokens(g, &lay)), rot);
        }
    }
    {
        let mut lay = base_lay.clone();
        lay.assign = vec!["::="; g.stmts.len()];
        lay.last_semicolon = false;
        rot += 1;
        variant(acc, "assign-spelling+no-final-semicolon", render_canonical(&tokens(g, &lay)), rot);
        let mut lay = base_lay.clone();
        lay.last_semicolon = false;
        rot += 1;
        variant(acc, "no-final-semicolon", render_canonical(&tokens(g, &lay)), rot);
    }
    // redundant parentheses around every item outside a word
    for (si, s) in g.stmts.iter().enumerate() {
        let e = match s {
            Stmt::Call { expr, .. } | Stmt::Def { expr, .. } => expr,
        };
        if matches!(s, Stmt::Def { shell: Some(_), .. }) {
            continue; // a shell-specific definition must stay a bare command
        }
        for id in outside_word_ids(e) {
            if (huge && id % 300 != 0) || (big && !huge && id % 4 != 0) {
                continue;
            }
            let mut lay = base_lay.clone();
            lay.parens = Some((si, id));
            rot += 1;
            variant(acc, "redundant-parentheses", render_canonical(&tokens(g, &lay)), rot);
            // ... and between a literal and its own description
            lay.inner = true;
            let t2 = render_canonical(&tokens(g, &lay));
            lay.inner = false;
            if t2 != render_canonical(&tokens(g, &lay)) {
                rot += 1;
                variant(acc, "parentheses-before-description", t2, rot);
            }
        }
    }
    // every permutation of the definitions (call variants keep their places)
    let def_pos: Vec<usize> = g.stmts.iter().enumerate().filter(|(_, s)| matches!(s, Stmt::Def { .. })).map(|(i, _)| i).collect();
    if def_pos.len() >= 2 {
        let perms = if def_pos.len() <= 4 {
            permutations(def_pos.len())
        } else {
            let n = def_pos.len();
            let mut v = vec![(0..n).rev().collect::<Vec<_>>()];
            let step = if n > 12 { n / 6 } else { 1 };
            for i in (0..n - 1).step_by(step) {
                let mut p: Vec<usize> = (0..n).collect();
                p.swap(i, i + 1);
                v.push(p);
            }
            v
        };
        for p in perms {
            if p.iter().enumerate().all(|(i, x)| i == *x) {
                continue;
            }
            let mut stmts = g.stmts.clone();
            for (slot, src) in def_pos.iter().zip(p.iter()) {
                stmts[*slot] = g.stmts[def_pos[*src]].clone();
            }
            let g2 = G { stmts };
            rot += 1;
            variant(acc, "definition-order", render_canonical(&tokens(&g2, &base_lay)), rot);
        }
        // all definitions first / all last
        let calls: Vec<Stmt> = g.stmts.iter().filter(|s| matches!(s, Stmt::Call { .. })).cloned().collect();
        let defs: Vec<Stmt> = g.stmts.iter().filter(|s| matches!(s, Stmt::Def { .. })).cloned().collect();
        for first in [true, false] {
            let mut stmts = vec![];
            if first {
                stmts.extend(defs.iter().cloned());
                stmts.extend(calls.iter().cloned());
            } else {
                stmts.extend(calls.iter().cloned());
                stmts.extend(defs.iter().rev().cloned());
            }
            rot += 1;
            variant(acc, "definition-order", render_canonical(&tokens(&G { stmts }, &base_lay)), rot);
        }
    }
}

pub fn run(tier: Tier) -> Report {
    let mut rep = Report::new("C14", tier, "exploration");
    let shells: Vec<Shell> = SHELLS.iter().map(|(s, _)| *s).collect();
    let k = tier.pick(4, 5);
    let k_pairs = tier.pick(2, 3);
    let n = crate::par::nthreads();
    let shells_ref = &shells;
    let accs = crate::par::run(
        n,
        |push| {
            for g in crate::corpus::grammars() {
                push(g);
            }
            for nd in 2..=4 {
                crate::fam::def_dags(nd, &mut |g| {
                    if g.stmts.first().map(|s| matches!(s, Stmt::Call { .. })).unwrap_or(false) {
                        push(g)
                    }
                });
            }
            crate::fam::with_defs(2, 2, 1, &mut |g| push(g));
            crate::fam::order_sensitive(&mut |g| push(g));
            crate::fam::nested_words(&mut |g| push(g));
            crate::fam::deep_shapes(&mut |g| push(g));
            crate::fam::single_call(crate::fam::v0(), k, &mut |g| push(g));
        },
        || Acc { samples: Some(Samples::new(3)), ..Default::default() },
        |acc, g: G| {
            let size: usize = g.stmts.iter().map(|s| match s {
                Stmt::Call { expr, .. } | Stmt::Def { expr, .. } => expr.size(),
            }).sum();
            check_grammar(acc, &g, shells_ref, size <= k_pairs && g.stmts.len() == 1);
        },
    );
    let mut t = Acc { samples: Some(Samples::new(12)), ..Default::default() };
    for a in accs {
        t.evals += a.evals;
        t.grammars += a.grammars;
        t.accepted += a.accepted;
        t.distinct.extend(a.distinct);
        for (k, v) in a.kinds {
            *t.kinds.entry(k).or_default() += v;
        }
        t.viol.extend(a.viol);
        if let (Some(x), Some(s)) = (t.samples.as_mut(), a.samples) {
            x.merge(s);
        }
    }
    for (k, s, d) in &t.viol {
        rep.violation(k, s.clone(), d.clone());
    }

    rep.cov("wall_s_library_level", J::Num(rep.elapsed()));
    // ---- Level B: the original corpus texts vs the harness's canonical re-print, and a
    // handful of re-layouts of each, through the real binary
    let scratch = Scratch::new("c14");
    let mut bin_runs = 0u64;
    let mut texts: Vec<(String, String)> = crate::corpus::TEXTS.iter().map(|(n, t)| (n.to_string(), t.to_string())).collect();
    texts.extend(crate::corpus::examples());
    for (name, text) in &texts {
        let Ok(pg) = complgen::parse::Grammar::parse(text) else { continue };
        let g = from_grammar(&pg);
        let canon = print_grammar(&g);
        let lay = Layout { assign: vec!["::="; g.stmts.len()], last_semicolon: false, parens: None, all_parens: false, inner: false };
        let relaid = render_with(&tokens(&g, &lay), |i, glue| if i > 0 && !matches!(glue, Glue::Tight) && i % 3 == 0 { Some(" # x\n\t".to_string()) } else { None });
        let mut rev = g.clone();
        let def_pos: Vec<usize> = rev.stmts.iter().enumerate().filter(|(_, s)| matches!(s, Stmt::Def { .. })).map(|(i, _)| i).collect();
        let defs: Vec<Stmt> = def_pos.iter().map(|i| g.stmts[*i].clone()).collect();
        for (slot, d) in def_pos.iter().zip(defs.iter().rev()) {
            rev.stmts[*slot] = d.clone();
        }
        let reversed = print_grammar(&rev);
        for (_, sn) in SHELLS {
            if tier == Tier::Quick && text.len() > 3000 && sn != "bash" && sn != "zsh" {
                continue;
            }
            let r0 = binrun::compile_stdio(text.as_bytes(), sn, &scratch);
            bin_runs += 1;
            for (kind, variant) in [("canonical-reprint", &canon), ("comments+::=+no-final-semicolon", &relaid), ("definitions-reversed", &reversed)] {
                let r1 = binrun::compile_stdio(variant.as_bytes(), sn, &scratch);
                bin_runs += 1;
                if r0.status != r1.status || r0.stdout != r1.stdout {
                    rep.violation(
                        &format!("binary-output-changes-{kind}"),
                        format!("corpus grammar {name}: {kind} changes the binary's --{sn} output ({} vs {})", r0.describe(), r1.describe()),
                        J::obj(vec![("original", J::s(text)), ("variant", J::s(variant.as_str())), ("shell", J::s(sn)), ("stderr", J::s(String::from_utf8_lossy(&r1.stderr).chars().take(400).collect::<String>()))]),
                    );
                }
            }
        }
    }

    rep.cov("evaluations", J::i((t.evals + bin_runs) as i64));
    rep.cov("distinct_nontrivial", J::i(t.distinct.len() as i64));
    rep.cov("grammars_enumerated", J::i(t.grammars as i64));
    rep.cov("grammars_accepted", J::i(t.accepted as i64));
    rep.cov("variants_by_kind", J::Obj(t.kinds.iter().map(|(k, v)| (k.to_string(), J::i(*v as i64))).collect()));
    rep.cov("binary_runs", J::i(bin_runs as i64));
    rep.cov(
        "rule",
        J::s(format!(
            "metamorphic, exhaustive single deviations: for every accepted grammar of (all trees <= {k} nodes over V0; the small definition family; all definition DAGs on 2..4 definitions; alternatives/sequences/fallbacks of bare references to command, word and literal definitions; the corpus) the canonical print is compiled for all four shells, then EVERY single re-layout is compiled (target shell rotating over the four) and compared byte for byte with the canonical output, plus verdict and warning counts: each alternative separator from {SEPS:?} at each token gap, leading/trailing blanks and comments, `::=` per definition and for all, no final `;`, redundant parentheses around every node outside a word (one at a time) and around the literal of a described literal `(lit) \"d\"`, every permutation of the definitions (all n! for n <= 4), definitions first / last; all pairs of separator deviations for trees <= {k_pairs} nodes. Level B: every corpus text (incl. examples/*.usage) through the real binary: original layout vs the harness's canonical re-print vs a comments+`::=`+no-final-`;` re-layout vs reversed definitions, x 4 shells, stdout and exit status identical. distinct = distinct variant texts."
        )),
    );
    rep.cov("exhaustive", J::Bool(true));
    rep.cov("samples", J::Arr(t.samples.map(|s| s.items).unwrap_or_default()));
    rep.assume("call-variant order is not permuted (the property does not claim it); warning positions legitimately move, only their number per kind is compared");
    rep
}
