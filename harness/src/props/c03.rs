//! C03 — minimisation preserves the language; the result is trim and minimal.

use crate::ast::{print_grammar, G};
use crate::auto::{equivalent, Dfa};
use crate::json::J;
use crate::pipe::{self, Outcome, Shell};
use crate::report::{Report, Samples, Tier};
use complgen::dfa::{InpId, DFA};
use complgen::regex::RegexInput;
use std::collections::{BTreeMap, BTreeSet, HashMap};

/// complgen DFA -> generic DFA over InpId indices (shared alphabet of raw and minimized)
pub fn to_generic(d: &DFA, syms: &mut HashMap<InpId, u32>) -> (Dfa, Vec<u32>) {
    let mut ids: Vec<u32> = vec![d.starting_state];
    let mut index: HashMap<u32, usize> = HashMap::from([(d.starting_state, 0)]);
    let mut add = |s: u32, ids: &mut Vec<u32>| {
        if !index.contains_key(&s) {
            index.insert(s, ids.len());
            ids.push(s);
        }
    };
    for (from, tos) in &d.transitions {
        add(*from, &mut ids);
        for (_, to) in tos {
            add(*to, &mut ids);
        }
    }
    for s in d.accepting_states.iter() {
        add(s, &mut ids);
    }
    let mut g = Dfa { start: 0, accept: vec![false; ids.len()], trans: vec![BTreeMap::new(); ids.len()] };
    for s in d.accepting_states.iter() {
        g.accept[index[&s]] = true;
    }
    for (from, tos) in &d.transitions {
        for (inp, to) in tos {
            let n = syms.len() as u32;
            let k = *syms.entry(*inp).or_insert(n);
            g.trans[index[from]].insert(k, index[to]);
        }
    }
    (g, ids)
}

#[derive(Default)]
pub struct Acc {
    grammars: u64,
    automata: u64,
    subword_automata: u64,
    all_accepting: u64,
    states: u64,
    transitions: u64,
    merged: u64, // automata where minimisation removed at least one state
    sizes: BTreeSet<(usize, usize)>,
    viol: Vec<(String, String, J)>,
    samples: Option<Samples>,
}

impl Acc {
    pub fn violations(&self) -> &Vec<(String, String, J)> {
        &self.viol
    }
}

fn check_pair(acc: &mut Acc, raw: &DFA, min: &DFA, what: &str, text: &str, shell: Shell) {
    acc.automata += 1;
    let mut syms = HashMap::new();
    let (graw, _) = to_generic(raw, &mut syms);
    let (gmin, min_ids) = to_generic(min, &mut syms);
    if graw.accept.iter().all(|a| *a) {
        acc.all_accepting += 1;
    }
    let detail = |why: String| {
        J::obj(vec![
            ("grammar", J::s(text)),
            ("shell", J::s(pipe::shell_name(shell))),
            ("automaton", J::s(what)),
            ("why", J::s(why)),
            ("raw_states", J::i(graw.n() as i64)),
            ("minimized_states", J::i(gmin.n() as i64)),
        ])
    };
    // (a) language preserved: product raw x minimized
    match equivalent(&graw.to_nfa(), &gmin.to_nfa()) {
        Ok(st) => {
            acc.states += st.states;
            acc.transitions += st.transitions;
        }
        Err((cex, _)) => {
            let why = format!("after input ids {:?}: {} (left raw, right minimized)", cex.path, cex.why);
            acc.viol.push(("language-changed".into(), format!("{what}: minimisation changed the language: {why}"), detail(why)));
            return;
        }
    }
    // (b) trim
    let r = gmin.reachable();
    let c = gmin.coreachable();
    for s in 0..gmin.n() {
        if !r[s] {
            let why = format!("state {} of the minimized automaton is unreachable", min_ids[s]);
            acc.viol.push(("not-trim-unreachable".into(), format!("{what}: {why}"), detail(why)));
            return;
        }
        if !c[s] {
            let why = format!("state {} of the minimized automaton cannot reach acceptance", min_ids[s]);
            acc.viol.push(("not-trim-dead".into(), format!("{what}: {why}"), detail(why)));
            return;
        }
    }
    // (c) minimal: Moore refinement ends in singletons; same size as our own minimisation of raw
    let blocks = gmin.moore_blocks();
    let mut seen: HashMap<usize, usize> = HashMap::new();
    for (s, b) in blocks.iter().enumerate() {
        if let Some(o) = seen.insert(*b, s) {
            let why = format!("states {} and {} of the minimized automaton accept the same continuations", min_ids[o], min_ids[s]);
            acc.viol.push(("not-minimal".into(), format!("{what}: {why}"), detail(why)));
            return;
        }
    }
    let own = graw.minimize();
    if own.n() != gmin.n() {
        let why = format!("minimized automaton has {} states, the minimal automaton of the language has {}", gmin.n(), own.n());
        acc.viol.push(("size-differs".into(), format!("{what}: {why}"), detail(why)));
        return;
    }
    if gmin.n() < graw.n() {
        acc.merged += 1;
    }
    acc.sizes.insert((graw.n(), gmin.n()));
    if let Some(s) = acc.samples.as_mut() {
        s.offer(|| {
            J::obj(vec![
                ("grammar", J::s(text.trim_end())),
                ("automaton", J::s(what)),
                ("raw_states", J::i(graw.n() as i64)),
                ("minimized_states", J::i(gmin.n() as i64)),
            ])
        });
    }
}

pub fn work(acc: &mut Acc, g: G, shell: Shell) {
    let text = print_grammar(&g);
    acc.grammars += 1;
    let c = match pipe::compile(&text, shell) {
        Outcome::Ok(c) => c,
        Outcome::Err(_) => return,
        Outcome::Panic(p) => {
            acc.viol.push(("crash".into(), format!("pipeline panicked: {p}"), J::obj(vec![("grammar", J::s(&text))])));
            return;
        }
    };
    check_pair(acc, &c.raw, &c.min, "main", &text, shell);
    // every within-word automaton, rebuilt raw from its regex
    let mut seen = BTreeSet::new();
    for inp in &c.regex.input_from_position {
        if let RegexInput::Subword { subword_regex_id, .. } = inp {
            let key = format!("{subword_regex_id}");
            if !seen.insert(key.clone()) {
                continue;
            }
            let rx = c.pool.verif_lookup(*subword_regex_id).clone();
            let r = pipe::guarded(|| {
                let raw = DFA::from_regex_raw(rx, &c.pool)?;
                let min = raw.clone().minimize();
                Ok::<_, complgen::Error>((raw, min))
            });
            match r {
                Ok(Ok((raw, min))) => {
                    acc.subword_automata += 1;
                    check_pair(acc, &raw, &min, &format!("within-word #{key}"), &text, shell);
                    // ... and as the minimized main automaton carries it (its own pool)
                    let carried: Vec<&DFA> = c
                        .min
                        .verif_inputs()
                        .filter_map(|(_, inp)| match inp {
                            complgen::dfa::Inp::Subword { subdfa, .. } => Some(c.min.subdfas.verif_lookup(*subdfa)),
                            _ => None,
                        })
                        .collect();
                    if !carried.is_empty() {
                        let mut syms = HashMap::new();
                        let (graw, _) = to_generic(&raw, &mut syms);
                        let same = carried.iter().find(|p| {
                            let mut syms2 = syms.clone();
                            let (gp, _) = to_generic(p, &mut syms2);
                            equivalent(&graw.to_nfa(), &gp.to_nfa()).is_ok()
                        });
                        match same {
                            Some(p) => {
                                if **p != min {
                                    check_pair(acc, &raw, p, &format!("within-word #{key} as carried by the minimized main automaton"), &text, shell);
                                }
                            }
                            None => acc.viol.push((
                                "language-changed".into(),
                                format!("within-word #{key}: none of the {} within-word automata carried by the minimized main automaton accepts the language of the expression", carried.len()),
                                J::obj(vec![("grammar", J::s(&text)), ("shell", J::s(pipe::shell_name(shell))), ("automaton", J::s(format!("within-word #{key}")))]),
                            )),
                        }
                    }
                }
                Ok(Err(_)) => {}
                Err(p) => acc.viol.push(("crash".into(), format!("within-word pipeline panicked: {p}"), J::obj(vec![("grammar", J::s(&text))]))),
            }
        }
    }
}

/// shapes that hit the "every state accepting" early return and other minimisation corners
fn stress() -> Vec<G> {
    use crate::ast::E;
    let a = || E::lit("a");
    let b = || E::lit("b");
    let opt = |e: E| E::Opt(Box::new(e));
    let many = |e: E| E::Many(Box::new(e));
    let mut v = vec![
        opt(E::Seq(vec![a(), opt(many(a()))])),
        E::Seq(vec![opt(a()), opt(b())]),
        opt(many(E::Alt(vec![a(), b()]))),
        opt(E::Seq(vec![a(), opt(E::Seq(vec![a(), opt(a())]))])),
        many(opt(a())),
        opt(E::Alt(vec![E::Seq(vec![a(), opt(b())]), E::Seq(vec![b(), opt(a())])])),
        E::Word(vec![opt(a()), opt(E::r("U"))]),
        E::Word(vec![opt(E::lit("x=")), opt(many(E::cmd("c1")))]),
    ];
    // chains [a [a [a ... ]]] of depth 2..6 and [a]... variants
    for depth in 2..=6 {
        let mut e = opt(a());
        for _ in 1..depth {
            e = opt(E::Seq(vec![a(), e]));
        }
        v.push(e);
    }
    v.into_iter().map(crate::fam::call).collect()
}

pub fn run(tier: Tier) -> Report {
    let mut rep = Report::new("C03", tier, "model_checking");
    let k = tier.pick(6, 7);
    let (km, k1, k2) = tier.pick((3, 3, 2), (4, 3, 3));
    let loop_len = tier.pick(4usize, 5usize);
    let seq_len = tier.pick(8usize, 9usize);
    let n = crate::par::nthreads();
    let accs = crate::par::run(
        n,
        |push| {
            for g in crate::corpus::grammars() {
                push(g);
            }
            for g in stress() {
                push(g);
            }
            crate::fam::nested_words(&mut |g| push(g));
            crate::fam::word_stars(&mut |g| push(g));
            crate::fam::deep_shapes(&mut |g| push(g));
            crate::fam::loop_segments(&["a", "b", "d"], loop_len, &mut |g| push(g));
            crate::fam::segment_sequences(seq_len, &mut |g| push(g));
            crate::fam::with_defs(km, k1, k2, &mut |g| push(g));
            for n in 2..=5 {
                crate::fam::def_dags(n, &mut |g| push(g));
            }
            crate::fam::single_call(crate::fam::v0(), k, &mut |g| push(g));
        },
        || Acc { samples: Some(Samples::new(3)), ..Default::default() },
        |acc, g| work(acc, g, Shell::Bash),
    );
    // supplementary seeded random tier of larger trees (can only add violations)
    let n_random = if std::env::var("NO_RANDOM").is_ok() { 0 } else { tier.pick(150_000usize, 3_000_000usize) };
    let seed = crate::report::seed();
    let raccs = crate::par::run(
        n,
        |push| crate::fam::random_grammars(seed, n_random, &mut |g| push(g)),
        || Acc::default(),
        |acc, g| work(acc, g, Shell::Bash),
    );
    let mut r_auto = 0u64;
    let mut r_merged = 0u64;
    let mut r_viol: Vec<(String, String, J)> = vec![];
    for a in raccs {
        r_auto += a.automata;
        r_merged += a.merged;
        r_viol.extend(a.viol);
    }
    let mut t = Acc { samples: Some(Samples::new(12)), ..Default::default() };
    for a in accs {
        t.grammars += a.grammars;
        t.automata += a.automata;
        t.subword_automata += a.subword_automata;
        t.all_accepting += a.all_accepting;
        t.states += a.states;
        t.transitions += a.transitions;
        t.merged += a.merged;
        t.sizes.extend(a.sizes);
        t.viol.extend(a.viol);
        if let (Some(x), Some(s)) = (t.samples.as_mut(), a.samples) {
            x.merge(s);
        }
    }
    for (k, s, d) in &t.viol {
        rep.violation(k, s.clone(), d.clone());
    }
    for (k, s, d) in &r_viol {
        rep.violation(k, format!("[random tier, seed {seed}] {s}"), d.clone());
    }
    rep.cov(
        "supplementary_random",
        J::obj(vec![
            ("seed", J::i(seed as i64)),
            ("grammars", J::i(n_random as i64)),
            ("automata_checked", J::i(r_auto as i64)),
            ("automata_where_minimisation_merged_states", J::i(r_merged as i64)),
            ("note", J::s("random trees of 8..23 nodes over {a, b, d, <U>, cmd}, arity <= 4; not part of states/transitions/exhaustive")),
        ]),
    );
    rep.cov("states", J::i(t.states as i64));
    rep.cov("transitions", J::i(t.transitions as i64));
    rep.cov("traces_validated_against_impl", J::i(0));
    rep.cov("grammars_enumerated", J::i(t.grammars as i64));
    rep.cov("automata_checked", J::i(t.automata as i64));
    rep.cov("within_word_automata_checked", J::i(t.subword_automata as i64));
    rep.cov("all_accepting_automata", J::i(t.all_accepting as i64));
    rep.cov("automata_where_minimisation_merged_states", J::i(t.merged as i64));
    rep.cov("distinct_raw_min_size_pairs", J::i(t.sizes.len() as i64));
    rep.cov(
        "rule",
        J::s(format!(
            "exhaustive: the C02 family (all trees <= {k} nodes over V0 as `cmd E`, the definition family, the corpus) plus hand-listed all-accepting/optional-chain shapes, nested within-word juxtapositions, and every repeated loop `cmd (S1 .. Sn)...;` of n <= {loop_len} segments from a 24-entry menu of literals, optional literals, optional runs and optional run-or-literal choices over {{a, b, d}}, every sequence `cmd S1 .. Sn;` of n <= {seq_len} segments from {{a, b, a..., (a|b), [a]}}, compiled for bash (minimisation is shell-independent apart from command labels). For each main automaton, each within-word automaton rebuilt raw from its regex and minimized, and the copy of it that the minimized main automaton carries in its own pool: (a) complete product raw x minimized over the shared input alphabet, (b) forward/backward reachability of every minimized state, (c) Moore partition refinement of the minimized automaton must end in singletons and its size must equal the harness's own minimisation of the raw automaton. states/transitions = product states/edges of (a)."
        )),
    );
    rep.cov("exhaustive", J::Bool(true));
    rep.cov("samples", J::Arr(t.samples.map(|s| s.items).unwrap_or_default()));
    rep.assume("the harness's Moore refinement and trim are correct (unit-tested, unrelated to Hopcroft's work-list algorithm)");
    rep
}
