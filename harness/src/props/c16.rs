//! C16 — the --dfa and --regex Graphviz dumps are well-formed and show the real automaton.

use crate::ast::{print_grammar, E, G};
use crate::binrun::{self, Invocation, Scratch};
use crate::dot::{self, Graph};
use crate::fam::call;
use crate::json::J;
use crate::pipe::{self, Outcome, Shell, SHELLS};
use crate::report::{Report, Samples, Tier};
use complgen::dfa::{Inp, DFA};
use complgen::regex::RegexInput;
use std::collections::{BTreeMap, BTreeSet};

#[derive(Default)]
pub struct Acc {
    evals: u64,
    dfa_ok: u64,
    regex_ok: u64,
    nodes: u64,
    edges: u64,
    clusters: u64,
    distinct: BTreeSet<u64>,
    viol: Vec<(String, String, J)>,
    samples: Option<Samples>,
}

fn display_contains(label: &str, inp: &Inp) -> Result<(), String> {
    let text = dot::label_text(label);
    match inp {
        Inp::Literal { literal, description, fallback_level } => {
            if !text.contains(literal.as_str()) {
                return Err(format!("edge label {text:?} lacks the literal {literal:?}"));
            }
            if let Some(d) = description {
                let dbg = format!("{:?}", d.as_str());
                if !text.contains(d.as_str()) && !text.contains(&dbg) && !text.contains(&dbg[1..dbg.len() - 1]) {
                    return Err(format!("edge label {text:?} lacks the description {d:?}"));
                }
            }
            if !text.contains(&format!("({fallback_level})")) {
                return Err(format!("edge label {text:?} lacks the fallback level {fallback_level}"));
            }
        }
        Inp::Star => {
            if text.trim() != "*" {
                return Err(format!("any-word edge labelled {text:?}"));
            }
        }
        Inp::Command { cmd, .. } | Inp::Compadd { cmd, .. } => {
            if !text.contains(cmd.as_str()) {
                return Err(format!("edge label {text:?} lacks the command text {cmd:?}"));
            }
        }
        Inp::Subword { .. } => {}
    }
    Ok(())
}

/// numbering of within-word automata as the scripts use it: first use in transition order
fn subword_numbering(dfa: &DFA, base: u32) -> Vec<(complgen::dfa::DFAId, u32)> {
    let mut out: Vec<(complgen::dfa::DFAId, u32)> = vec![];
    for (_, tos) in &dfa.transitions {
        for (inp, _) in tos {
            if let Inp::Subword { subdfa, .. } = dfa.verif_input(*inp) {
                if !out.iter().any(|(d, _)| d == subdfa) {
                    let k = out.len() as u32 + base;
                    out.push((*subdfa, k));
                }
            }
        }
    }
    out
}

fn states_of(d: &DFA) -> BTreeSet<u32> {
    let mut s = BTreeSet::from([d.starting_state]);
    for (f, tos) in &d.transitions {
        s.insert(*f);
        for t in tos.values() {
            s.insert(*t);
        }
    }
    for a in d.accepting_states.iter() {
        s.insert(a);
    }
    s
}

fn check_dfa_graph(g: &Graph, dfa: &DFA, owner: &DFA, base: u32, prefix: &str, cluster: Option<&str>) -> Result<(u64, u64), String> {
    let mut nodes = 0u64;
    let mut edges = 0u64;
    let name = |s: u32| format!("_{prefix}{}", s + base);
    for s in states_of(dfa) {
        let n = g.nodes.get(&name(s)).ok_or_else(|| format!("state {} has no node {}", s + base, name(s)))?;
        nodes += 1;
        if n.cluster.as_deref() != cluster {
            return Err(format!("node {} sits in {:?}, expected {:?}", name(s), n.cluster, cluster));
        }
        let want_label = format!("{prefix}{}", s + base);
        if n.attrs.get("label").map(|l| l.as_str()) != Some(want_label.as_str()) {
            return Err(format!("node {} is labelled {:?}, expected {want_label:?}", name(s), n.attrs.get("label")));
        }
        let acc = dfa.accepting_states.contains(s);
        let start = s == dfa.starting_state;
        let shape_ok = match (start, acc) {
            (true, true) => n.shape == "doubleoctagon" || n.shape == "doublecircle",
            (true, false) => n.shape == "octagon",
            (false, true) => n.shape == "doublecircle",
            (false, false) => n.shape == "circle",
        };
        if !shape_ok {
            return Err(format!("node {} (start={start}, accepting={acc}) has shape {}", name(s), n.shape));
        }
    }
    // nodes of this (sub)graph that are no states
    let expected: BTreeSet<String> = states_of(dfa).into_iter().map(name).collect();
    for (id, n) in &g.nodes {
        if n.cluster.as_deref() == cluster && !expected.contains(id) {
            return Err(format!("node {id} does not correspond to a state of the automaton"));
        }
    }
    let numbering = subword_numbering(owner, base);
    for (from, tos) in &dfa.transitions {
        for (inp_id, to) in tos {
            let inp = dfa.verif_input(*inp_id);
            match inp {
                Inp::Subword { subdfa, .. } => {
                    let k = numbering.iter().find(|(d, _)| d == subdfa).map(|(_, k)| *k).ok_or("within-word automaton without a number")?;
                    let sub = owner.subdfas.verif_lookup(*subdfa);
                    let entry = (name(*from), format!("_{k}_{}", sub.starting_state + base));
                    if !g.edges.iter().any(|e| e.from == entry.0 && e.to == entry.1 && e.attrs.get("style").map(|s| s.as_str()) == Some("dashed")) {
                        return Err(format!("no dashed edge {} -> {} into the cluster of within-word automaton {k}", entry.0, entry.1));
                    }
                    for a in sub.accepting_states.iter() {
                        let exit = (format!("_{k}_{}", a + base), name(*to));
                        if !g.edges.iter().any(|e| e.from == exit.0 && e.to == exit.1 && e.attrs.get("style").map(|s| s.as_str()) == Some("dashed")) {
                            return Err(format!("no dashed edge {} -> {} out of the cluster of within-word automaton {k}", exit.0, exit.1));
                        }
                    }
                    edges += 1;
                }
                _ => {
                    let cands: Vec<&dot::Edge> = g.edges.iter().filter(|e| e.from == name(*from) && e.to == name(*to) && e.attrs.contains_key("label")).collect();
                    if !cands.iter().any(|e| display_contains(&e.attrs["label"], inp).is_ok()) {
                        let why = cands.first().map(|e| display_contains(&e.attrs["label"], inp).unwrap_err()).unwrap_or_else(|| "no labelled edge".to_string());
                        return Err(format!("transition {} -> {} is not shown ({why})", name(*from), name(*to)));
                    }
                    edges += 1;
                }
            }
        }
    }
    // no labelled edge that is no transition
    for e in &g.edges {
        if e.attrs.contains_key("label") && e.cluster.as_deref() == cluster {
            let ok = dfa.transitions.iter().any(|(f, tos)| name(*f) == e.from && tos.iter().any(|(i, t)| name(*t) == e.to && display_contains(&e.attrs["label"], dfa.verif_input(*i)).is_ok()));
            if !ok {
                return Err(format!("edge {} -> {} [{}] is no transition of the automaton", e.from, e.to, e.attrs["label"]));
            }
        }
    }
    Ok((nodes, edges))
}

pub fn check_dfa_dump(text: &str, c: &pipe::Compiled, shell: Shell) -> Result<(u64, u64, u64), String> {
    let g = dot::parse(text).map_err(|e| format!("not valid DOT: {e}"))?;
    let base = pipe::array_start(shell);
    let (mut nodes, mut edges) = check_dfa_graph(&g, &c.min, &c.min, base, "", None)?;
    let numbering = subword_numbering(&c.min, base);
    for (id, k) in &numbering {
        let cname = format!("cluster_{k}");
        if !g.clusters.contains_key(&cname) {
            return Err(format!("no cluster for within-word automaton {k}"));
        }
        let sub = c.min.subdfas.verif_lookup(*id);
        let (n, e) = check_dfa_graph(&g, sub, &c.min, base, &format!("{k}_"), Some(&cname))?;
        nodes += n;
        edges += e;
    }
    if g.clusters.len() != numbering.len() {
        return Err(format!("{} clusters for {} within-word automata", g.clusters.len(), numbering.len()));
    }
    Ok((nodes, edges, numbering.len() as u64))
}

pub fn check_regex_dump(text: &str, c: &pipe::Compiled) -> Result<u64, String> {
    let g = dot::parse(text).map_err(|e| format!("not valid DOT: {e}"))?;
    let mut shown = 0u64;
    let check_positions = |inputs: &Vec<RegexInput>, cluster: Option<String>| -> Result<u64, String> {
        let mut n = 0;
        for (pos, inp) in inputs.iter().enumerate() {
            let want_prefix = format!("{pos}: ");
            let labels: Vec<String> = g.nodes.values().filter(|nd| nd.cluster == cluster).filter_map(|nd| nd.attrs.get("label")).map(|l| dot::label_text(l)).filter(|l| l.starts_with(&want_prefix)).collect();
            let ok = labels.iter().any(|l| match inp {
                RegexInput::Literal { literal, description, .. } => l.contains(literal.as_str()) && description.map(|d| l.contains(d.as_str())).unwrap_or(true),
                RegexInput::Nonterminal { nonterm, .. } => l.contains(&format!("<{nonterm}>")),
                RegexInput::Command { cmd, .. } => l.contains(cmd.as_str()),
                RegexInput::Subword { subword_regex_id, .. } => l.contains(&format!("Subword {subword_regex_id}")),
            });
            if !ok {
                return Err(format!("expected item at position {pos} ({inp:?}) has no labelled node in {:?} (labels with that position: {labels:?})", cluster));
            }
            n += 1;
        }
        Ok(n)
    };
    shown += check_positions(&c.regex.input_from_position, None)?;
    let mut sub_ids: BTreeSet<String> = BTreeSet::new();
    for inp in &c.regex.input_from_position {
        if let RegexInput::Subword { subword_regex_id, .. } = inp {
            if sub_ids.insert(format!("{subword_regex_id}")) {
                let cname = format!("cluster_{subword_regex_id}");
                if !g.clusters.contains_key(&cname) {
                    return Err(format!("no cluster for within-word expression {subword_regex_id}"));
                }
                let rx = c.pool.verif_lookup(*subword_regex_id);
                shown += check_positions(&rx.input_from_position, Some(cname))?;
            }
        }
    }
    // every edge joins declared nodes
    for e in &g.edges {
        if !g.nodes.contains_key(&e.from) || !g.nodes.contains_key(&e.to) {
            return Err(format!("edge {} -> {} uses a node that is never declared", e.from, e.to));
        }
    }
    Ok(shown)
}

pub fn work(acc: &mut Acc, g: G, shells: &[Shell]) {
    let text = print_grammar(&g);
    for shell in shells {
        let sn = pipe::shell_name(*shell);
        let c = match pipe::compile(&text, *shell) {
            Outcome::Ok(c) => c,
            Outcome::Err(_) => continue,
            Outcome::Panic(p) => {
                acc.viol.push(("crash".into(), format!("panic: {p}"), J::obj(vec![("grammar", J::s(&text))])));
                continue;
            }
        };
        acc.evals += 1;
        acc.distinct.insert(crate::report::fnv(&format!("{text}{sn}")));
        let detail = |why: &str, which: &str| J::obj(vec![("grammar", J::s(&text)), ("shell", J::s(sn)), ("dump", J::s(which)), ("why", J::s(why)), ("reproduce", J::s(format!("complgen --{sn} /dev/null {which} /dev/stdout FILE")))]);
        match pipe::dfa_dot(&c, *shell) {
            Ok(b) => match check_dfa_dump(&String::from_utf8_lossy(&b), &c, *shell) {
                Ok((n, e, k)) => {
                    acc.dfa_ok += 1;
                    acc.nodes += n;
                    acc.edges += e;
                    acc.clusters += k;
                    if k > 0 {
                        if let Some(s) = acc.samples.as_mut() {
                            s.offer(|| J::obj(vec![("grammar", J::s(text.trim_end())), ("shell", J::s(sn)), ("dfa_nodes", J::i(n as i64)), ("dfa_edges", J::i(e as i64)), ("clusters", J::i(k as i64))]));
                        }
                    }
                }
                Err(why) => acc.viol.push((if why.starts_with("not valid DOT") { "dfa-dump-invalid-dot".into() } else { "dfa-dump-wrong".into() }, format!("--dfa dump for --{sn}: {why}"), detail(&why, "--dfa"))),
            },
            Err(e) => acc.viol.push(("crash".into(), format!("to_dot failed: {e}"), detail(&e, "--dfa"))),
        }
        if *shell == Shell::Bash || *shell == Shell::Zsh {
            match pipe::regex_dot(&c) {
                Ok(b) => match check_regex_dump(&String::from_utf8_lossy(&b), &c) {
                    Ok(n) => {
                        acc.regex_ok += 1;
                        acc.nodes += n;
                    }
                    Err(why) => acc.viol.push((if why.starts_with("not valid DOT") { "regex-dump-invalid-dot".into() } else { "regex-dump-wrong".into() }, format!("--regex dump for --{sn}: {why}"), detail(&why, "--regex"))),
                },
                Err(e) => acc.viol.push(("crash".into(), format!("regex to_dot failed: {e}"), detail(&e, "--regex"))),
            }
        }
    }
}

fn special_strings(f: &mut dyn FnMut(G)) {
    let hot = ["\"", "\\", "\\\"", "\"\\", "a\"b", "x\\", "{", "}", "{}", "<", ">", "a b", "\u{e9}", "\\n", "|", ";", "[x]", "->", "//"];
    for s in hot {
        if crate::ast::is_writable_literal(s) {
            f(call(E::Seq(vec![E::lit(s), E::lit("t")])));
            f(call(E::Seq(vec![E::Word(vec![E::lit("k="), E::Alt(vec![E::lit(s), E::lit("z")])]), E::lit("t")])));
        }
        f(call(E::Alt(vec![E::litd("foo", s), E::lit("bar")])));
        f(call(E::Word(vec![E::lit("k="), E::Alt(vec![E::litd("v", s), E::lit("w")])])));
        if !s.contains('}') {
            f(call(E::Seq(vec![E::cmd(&format!("echo {s}")), E::lit("t")])));
            f(call(E::Word(vec![E::lit("c="), E::cmd(&format!("echo {s}"))])));
        }
        if !s.contains('>') && !s.contains('@') {
            f(call(E::Seq(vec![E::r(&format!("N{s}")), E::lit("t")])));
        }
    }
    // command names that are not plain identifiers (complgen accepts anything without `/`)
    for name in ["git-lfs", "7z", "g++", "a.out", "x_y", "apt-get"] {
        f(G { stmts: vec![crate::ast::Stmt::Call { name: name.into(), expr: E::Seq(vec![E::Word(vec![E::lit("--k="), E::Alt(vec![E::lit("a"), E::lit("b")])]), E::lit("t")]) }] });
    }
    // the same within-word expression referenced from two positions; several automata whose
    // first use differs from grammar order
    use crate::ast::Stmt;
    use crate::fam::def;
    f(G { stmts: vec![Stmt::Call { name: "cmd".into(), expr: E::Seq(vec![E::r("WHEN"), E::lit("then"), E::r("WHEN")]) }, def("WHEN", E::Word(vec![E::lit("--color="), E::Alt(vec![E::lit("always"), E::lit("never")])]))] });
    f(call(E::Alt(vec![E::Seq(vec![E::lit("foo"), E::Word(vec![E::lit("--a="), E::Alt(vec![E::lit("x"), E::lit("y")])])]), E::Word(vec![E::lit("--b="), E::Alt(vec![E::lit("x"), E::lit("z")])])])));
    f(call(E::Seq(vec![E::Opt(Box::new(E::Word(vec![E::lit("--c="), E::lit("p"), E::r("U")]))), E::Word(vec![E::lit("--a="), E::Alt(vec![E::lit("x"), E::lit("y")])]), E::Word(vec![E::lit("--c="), E::lit("p"), E::r("U")])])));
}

pub fn run(tier: Tier) -> Report {
    let mut rep = Report::new("C16", tier, "exploration");
    let all: Vec<Shell> = SHELLS.iter().map(|(s, _)| *s).collect();
    let k = tier.pick(4, 5);
    let n = crate::par::nthreads();
    let accs = crate::par::run(
        n,
        |push| {
            for g in crate::corpus::grammars() {
                push(g);
            }
            special_strings(&mut |g| push(g));
            crate::props::c04::sharing_family(&mut |g| push(g));
            crate::fam::nested_words(&mut |g| push(g));
            crate::fam::deep_shapes(&mut |g| push(g));
            crate::fam::order_sensitive(&mut |g| push(g));
            crate::fam::with_defs(3, 2, 1, &mut |g| push(g));
            crate::fam::single_call(crate::fam::v0(), k, &mut |g| push(g));
        },
        || Acc { samples: Some(Samples::new(3)), ..Default::default() },
        |acc, g| work(acc, g, &all),
    );
    let mut t = Acc { samples: Some(Samples::new(10)), ..Default::default() };
    for a in accs {
        t.evals += a.evals;
        t.dfa_ok += a.dfa_ok;
        t.regex_ok += a.regex_ok;
        t.nodes += a.nodes;
        t.edges += a.edges;
        t.clusters += a.clusters;
        t.distinct.extend(a.distinct);
        t.viol.extend(a.viol);
        if let (Some(x), Some(s)) = (t.samples.as_mut(), a.samples) {
            x.merge(s);
        }
    }
    for (k, s, d) in &t.viol {
        rep.violation(k, s.clone(), d.clone());
    }
    // ---- Level B: the files the binary writes are the bytes the library produces
    let scratch = Scratch::new("c16");
    let mut bin = 0u64;
    let mut texts: Vec<String> = crate::corpus::TEXTS.iter().map(|(_, t)| t.to_string()).collect();
    texts.extend(crate::corpus::examples().into_iter().map(|(_, t)| t));
    special_strings(&mut |g| texts.push(print_grammar(&g)));
    for (i, text) in texts.iter().enumerate() {
        let (shell, sn) = SHELLS[i % 4];
        if tier == Tier::Quick && i % 3 != 0 && i > 14 {
            continue;
        }
        let inp = scratch.path("g.usage");
        std::fs::write(&inp, text).unwrap();
        let (d, r) = (scratch.path("d.dot"), scratch.path("r.dot"));
        // destination history: the previous (often larger) dump is still there, or a long
        // unrelated file, or nothing
        match i % 3 {
            0 => {}
            1 => {
                let junk: String = (0..20_000).map(|k| format!("stale {k} }} \" ;\n")).collect();
                std::fs::write(&d, &junk).unwrap();
                std::fs::write(&r, &junk).unwrap();
            }
            _ => {
                let _ = std::fs::remove_file(&d);
                let _ = std::fs::remove_file(&r);
            }
        }
        let inv = Invocation::new(vec![format!("--{sn}"), "/dev/null".into(), "--dfa".into(), d.to_string_lossy().to_string(), "--regex".into(), r.to_string_lossy().to_string(), inp.to_string_lossy().to_string()]);
        let res = binrun::run(&inv, &scratch);
        bin += 1;
        if let Outcome::Ok(c) = pipe::compile(text, shell) {
            let lib_d = pipe::dfa_dot(&c, shell).unwrap_or_default();
            let lib_r = pipe::regex_dot(&c).unwrap_or_default();
            let (fd, fr) = (std::fs::read(&d).unwrap_or_default(), std::fs::read(&r).unwrap_or_default());
            if res.status != Some(0) || fd != lib_d || fr != lib_r {
                rep.violation(
                    "binary-dump-differs-from-library",
                    format!("--{sn}: the --dfa/--regex files written by the binary ({}) differ from the library's bytes", res.describe()),
                    J::obj(vec![("grammar", J::s(text)), ("shell", J::s(sn)), ("stderr", J::s(String::from_utf8_lossy(&res.stderr).chars().take(300).collect::<String>()))]),
                );
            }
        }
    }
    rep.cov("evaluations", J::i((t.evals + bin) as i64));
    rep.cov("distinct_nontrivial", J::i(t.distinct.len() as i64));
    rep.cov("dfa_dumps_ok", J::i(t.dfa_ok as i64));
    rep.cov("regex_dumps_ok", J::i(t.regex_ok as i64));
    rep.cov("nodes_checked", J::i(t.nodes as i64));
    rep.cov("edges_checked", J::i(t.edges as i64));
    rep.cov("clusters_checked", J::i(t.clusters as i64));
    rep.cov("binary_runs", J::i(bin as i64));
    rep.cov(
        "rule",
        J::s(format!(
            "exhaustive: all trees <= {k} nodes over V0, the definition / order-sensitive / sharing-biased families, the corpus, and a menu of 19 hot strings (quotes, backslashes, braces, angle brackets, DOT operators, non-ASCII) each as literal, literal inside a word, description, command text and nonterminal name; six command names that are not plain identifiers; x 4 shells for --dfa (numbering base differs), bash+zsh for --regex. The dump must parse with the harness's strict DOT parser (graphviz lexer rules); --dfa: exactly one node per state of the compiled automaton named and labelled with the shell's numbering, start/accepting shapes, one labelled edge per transition whose decoded label holds the item's text, description and level, one cluster per within-word automaton numbered as the scripts number them (first use in transition order) with dashed entry/exit edges, no edge that is no transition; --regex: every expected item (position) of the main and of every within-word expression has a labelled node, every edge joins declared nodes. Level B: the files the real binary writes equal the library's bytes, whether the destination is new, holds the previous dump or holds a long unrelated file. distinct = distinct (grammar, shell)."
        )),
    );
    rep.cov("exhaustive", J::Bool(true));
    rep.cov("samples", J::Arr(t.samples.map(|s| s.items).unwrap_or_default()));
    rep.assume("no `dot` binary is installed: validity = acceptance by the harness's strict parser of the DOT grammar (harness/src/dot.rs)");
    rep
}
