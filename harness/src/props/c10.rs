//! C10 — output is a pure function of the input: byte-identical across runs, processes,
//! environments, hash seeds and in-process histories.
//!
//! The hidden inputs of a Rust process (std RandomState seed via getrandom, address-space layout,
//! environment, cwd, what the process compiled before) are put under the harness's control and
//! swept; every configuration must reproduce the reference bytes.

use crate::binrun::{self, Invocation, Scratch};
use crate::json::J;
use crate::pipe::{self, Outcome, SHELLS};
use crate::report::{fnv, Report, Samples, Tier};
use std::collections::BTreeSet;
use std::path::PathBuf;

fn wide_grammar(reverse: bool) -> String {
    // many literals of equal length, several commands, several within-word automata of the
    // same and of different shapes, several fallback levels
    let mut lits: Vec<String> = (0..40).map(|i| format!("lit{:02}", (i * 7) % 40)).collect();
    if reverse {
        lits.reverse();
    }
    let mut s = String::from("wide (");
    s.push_str(&lits.join(" | "));
    s.push_str(")\n  [");
    let mut words: Vec<String> = vec![
        "--alpha=(one | two)".into(),
        "--bravo=(red | blue)".into(),
        "--charl=(ein | zwo)".into(),
        "--delta=(a | b | c)".into(),
        "--echo=<FILE>".into(),
        "--fox={{{ echo f1; echo f2 }}}".into(),
        "-x<NUM>".into(),
    ];
    if reverse {
        words.reverse();
    }
    s.push_str(&words.join(" | "));
    s.push_str("]...\n  (");
    let mut cmds: Vec<String> = (0..8).map(|i| format!("{{{{{{ echo c{i} }}}}}}")).collect();
    if reverse {
        cmds.reverse();
    }
    s.push_str(&cmds.join(" || "));
    s.push_str(") <PATH> [<DIRECTORY>];\n<FILE> = {{{ ls }}};\n<NUM> = 1 | 2 | 3;\n");
    s
}

pub fn grammars() -> Vec<(String, String)> {
    let mut v: Vec<(String, String)> = vec![("wide".into(), wide_grammar(false)), ("wide-reversed".into(), wide_grammar(true))];
    for (n, t) in crate::corpus::TEXTS {
        v.push((n.to_string(), t.to_string()));
    }
    v.extend(crate::corpus::examples());
    v
}

struct Config {
    name: String,
    seed: Option<u64>,
    no_aslr: bool,
    env: Vec<(String, String)>,
    clear_env: bool,
    other_cwd: bool,
    stdin: bool,
    /// destinations exist already and hold longer, unrelated content
    prefill: bool,
    /// log the names passed to getenv (through the shim)
    env_log: bool,
    /// which of the two dumps are requested next to the script (bit 0: --dfa, bit 1: --regex)
    dumps: u8,
}

fn configs(tier: Tier) -> Vec<Config> {
    let mut v = vec![];
    let base = |name: &str| Config { name: name.to_string(), seed: None, no_aslr: false, env: vec![], clear_env: false, other_cwd: false, stdin: false, prefill: false, env_log: false, dumps: 3 };
    for s in 0..tier.pick(4u64, 32u64) {
        v.push(Config { seed: Some(s), ..base(&format!("hash seed {s}")) });
    }
    v.push(Config { seed: Some(0), ..base("hash seed 0 again (replay)") });
    v.push(Config { seed: Some(3), no_aslr: true, ..base("no ASLR, hash seed 3") });
    v.push(Config { no_aslr: true, ..base("no ASLR") });
    v.push(base("plain (OS randomness)"));
    v.push(Config { clear_env: true, ..base("empty environment") });
    v.push(Config { env: vec![("BIG".into(), "x".repeat(60_000)), ("BIG2".into(), "y".repeat(9_001))], ..base("large environment") });
    v.push(Config {
        env: vec![("LANG".into(), "tr_TR.UTF-8".into()), ("LC_ALL".into(), "C.UTF-8".into()), ("TZ".into(), "Pacific/Kiritimati".into()), ("HOME".into(), "/nonexistent".into()), ("TERM".into(), "dumb".into()), ("RUST_BACKTRACE".into(), "full".into()), ("RUST_LOG".into(), "trace".into()), ("COLUMNS".into(), "7".into())],
        ..base("odd locale/TZ/HOME/TERM/RUST_*")
    });
    v.push(Config { other_cwd: true, ..base("other working directory") });
    v.push(Config { prefill: true, seed: Some(0), ..base("destination files exist with longer content, hash seed 0") });
    v.push(Config { dumps: 0, seed: Some(0), ..base("script only (no --dfa, no --regex), hash seed 0") });
    v.push(Config { dumps: 1, seed: Some(0), ..base("script and --dfa only, hash seed 0") });
    v.push(Config { dumps: 2, seed: Some(0), ..base("script and --regex only, hash seed 0") });
    v.push(Config { stdin: true, seed: Some(1), ..base("grammar on stdin, hash seed 1") });
    v
}

struct Outputs {
    status: Option<i32>,
    script: Vec<u8>,
    dfa: Vec<u8>,
    regex: Vec<u8>,
    asked_randomness: bool,
    env_names: Vec<String>,
}

fn run_config(text: &str, shell: &str, cfg: &Config, scratch: &Scratch, shim: &Option<PathBuf>) -> Outputs {
    let inpath = scratch.path("in.usage");
    std::fs::write(&inpath, text).unwrap();
    let (o, d, r) = (scratch.path("out.script"), scratch.path("out.dfa"), scratch.path("out.regex"));
    for p in [&o, &d, &r] {
        let _ = std::fs::remove_file(p);
        if cfg.prefill {
            let mut junk = String::from("# left over from an earlier, larger grammar\n");
            for i in 0..40_000 {
                junk.push_str(&format!("stale line {i} }} ) ] \" ' ;\n"));
            }
            std::fs::write(p, junk).unwrap();
        }
    }
    let envlog = scratch.path("env.log");
    let _ = std::fs::remove_file(&envlog);
    let seedlog = scratch.path("seed.log");
    let _ = std::fs::remove_file(&seedlog);
    let mut args = vec![format!("--{shell}"), o.to_string_lossy().to_string()];
    if cfg.dumps & 1 != 0 {
        args.extend(["--dfa".to_string(), d.to_string_lossy().to_string()]);
    }
    if cfg.dumps & 2 != 0 {
        args.extend(["--regex".to_string(), r.to_string_lossy().to_string()]);
    }
    args.push(if cfg.stdin { "-".into() } else { inpath.to_string_lossy().to_string() });
    let mut inv = Invocation::new(args);
    let stdin_bytes = text.as_bytes().to_vec();
    if cfg.stdin {
        inv.stdin = Some(&stdin_bytes);
    }
    inv.clear_env = cfg.clear_env;
    inv.env = cfg.env.clone();
    if let (Some(seed), Some(shim)) = (cfg.seed, shim) {
        inv.env.push(("LD_PRELOAD".into(), shim.to_string_lossy().to_string()));
        inv.env.push(("CG_SEED".into(), seed.to_string()));
        inv.env.push(("CG_SEED_LOG".into(), seedlog.to_string_lossy().to_string()));
        if cfg.env_log {
            inv.env.push(("CG_ENV_LOG".into(), envlog.to_string_lossy().to_string()));
        }
    }
    let other = scratch.path("elsewhere");
    if cfg.other_cwd {
        let _ = std::fs::create_dir_all(&other);
        inv.cwd = Some(&other);
    }
    if cfg.no_aslr {
        inv.program = Some(PathBuf::from("/usr/bin/setarch"));
        inv.pre_args = vec!["x86_64".into(), "-R".into(), binrun::bin_path().to_string_lossy().to_string()];
    }
    let res = binrun::run(&inv, scratch);
    Outputs {
        status: res.status,
        script: std::fs::read(&o).unwrap_or_default(),
        dfa: std::fs::read(&d).unwrap_or_default(),
        regex: std::fs::read(&r).unwrap_or_default(),
        asked_randomness: std::fs::metadata(&seedlog).map(|m| m.len() > 0).unwrap_or(false),
        env_names: std::fs::read_to_string(&envlog).map(|s| s.lines().map(|l| l.to_string()).collect()).unwrap_or_default(),
    }
}

/// `cgmc c10-worker <shell> <file>...`: compile the files in order in ONE process, print one
/// line per file: name, hash(script), hash(dfa dot), hash(regex dot)
pub fn worker_main(args: &[String]) {
    let shell = SHELLS.iter().find(|(_, n)| *n == args[0]).map(|(s, _)| *s).expect("shell");
    for f in &args[1..] {
        let text = std::fs::read_to_string(f).expect("read");
        match pipe::compile(&text, shell) {
            Outcome::Ok(c) => {
                let s = pipe::emit(&c, shell).unwrap_or_default();
                let d = pipe::dfa_dot(&c, shell).unwrap_or_default();
                let r = pipe::regex_dot(&c).unwrap_or_default();
                println!("{f} {:016x} {:016x} {:016x}", fnv(&String::from_utf8_lossy(&s)), fnv(&String::from_utf8_lossy(&d)), fnv(&String::from_utf8_lossy(&r)));
            }
            _ => println!("{f} rejected"),
        }
    }
}

fn permutations(n: usize) -> Vec<Vec<usize>> {
    if n == 0 {
        return vec![vec![]];
    }
    let mut out = vec![];
    for p in permutations(n - 1) {
        for i in 0..=p.len() {
            let mut q = p.clone();
            q.insert(i, n - 1);
            out.push(q);
        }
    }
    out
}

pub fn run(tier: Tier) -> Report {
    let mut rep = Report::new("C10", tier, "exploration");
    let scratch = Scratch::new("c10");
    // build the shim (machinery; without it the seed sweep degrades to OS randomness)
    let shim_src = format!("{}/harness/shim/getrandom_shim.c", crate::report::root());
    let shim_so = PathBuf::from(format!("{}/.build/getrandom_shim.so", crate::report::root()));
    let built = std::process::Command::new("gcc").args(["-shared", "-fPIC", "-O1", "-o"]).arg(&shim_so).arg(&shim_src).status().map(|s| s.success()).unwrap_or(false);
    let shim = if built { Some(shim_so) } else { None };
    if shim.is_none() {
        eprintln!("machinery: cannot build the getrandom shim");
        std::process::exit(2);
    }
    let gs = grammars();
    let cfgs = configs(tier);
    let mut evals = 0u64;
    let mut distinct: BTreeSet<u64> = BTreeSet::new();
    let mut asked = 0u64;
    let mut transient = 0u64;
    let mut samples = Samples::new(10);
    for (gi, (name, text)) in gs.iter().enumerate() {
        for (si, (_, sn)) in SHELLS.iter().enumerate() {
            // big grammars: two shells in the quick tier
            if tier == Tier::Quick && text.len() > 3000 && (si + gi) % 2 == 0 {
                continue;
            }
            let reference = run_config(text, sn, &cfgs[0], &scratch, &shim);
            evals += 1;
            if reference.asked_randomness {
                asked += 1;
            }
            distinct.insert(fnv(&format!("{name}{sn}")));
            let replay = run_config(text, sn, &cfgs[0], &scratch, &shim);
            if replay.script != reference.script || replay.dfa != reference.dfa || replay.regex != reference.regex {
                // with the seed owned, a replay must be identical: if not, the shim does not own the
                // nondeterminism -> still a violation of the property (two runs differ)
                rep.violation(
                    "differs-with-same-seed",
                    format!("{name} --{sn}: two runs with the same controlled hash seed and environment differ"),
                    J::obj(vec![("grammar", J::s(text)), ("shell", J::s(*sn)), ("config", J::s(&cfgs[0].name))]),
                );
                continue;
            }
            for cfg in &cfgs[1..] {
                let mut out = run_config(text, sn, cfg, &scratch, &shim);
                // a run that did not end with an exit code (killed, horizon) is replayed before it
                // is believed: with the seed owned, a real difference shows again
                let mut tries = 0;
                while out.status.is_none() && reference.status.is_some() && tries < 2 {
                    tries += 1;
                    transient += 1;
                    out = run_config(text, sn, cfg, &scratch, &shim);
                }
                evals += 1;
                distinct.insert(fnv(&format!("{name}{sn}{}", cfg.name)));
                let mut diffs = vec![];
                if out.status != reference.status {
                    diffs.push("exit status");
                }
                if out.script != reference.script {
                    diffs.push("script");
                }
                if cfg.dumps & 1 != 0 && out.dfa != reference.dfa {
                    diffs.push("--dfa file");
                }
                if cfg.dumps & 2 != 0 && out.regex != reference.regex {
                    diffs.push("--regex file");
                }
                if !diffs.is_empty() {
                    rep.violation(
                        &format!("output-depends-on-{}", if cfg.dumps != 3 { "other-options" } else if cfg.prefill { "destination-history" } else if cfg.seed.is_some() && !cfg.no_aslr && !cfg.stdin { "hash-seed" } else { "environment" }),
                        format!("{name} --{sn}: {} differ(s) between [{}] (exit {:?}) and [{}] (exit {:?})", diffs.join(", "), cfgs[0].name, reference.status, cfg.name, out.status),
                        J::obj(vec![("grammar", J::s(text)), ("shell", J::s(*sn)), ("reference_config", J::s(&cfgs[0].name)), ("config", J::s(&cfg.name)), ("differs", J::s(diffs.join(", "))), ("reproduce", J::s(format!("CG_SEED=<n> LD_PRELOAD={} complgen --{sn} OUT --dfa D --regex R FILE  (twice, different n)", shim.as_ref().unwrap().display())))]),
                    );
                }
            }
            samples.offer(|| J::obj(vec![("grammar", J::s(name)), ("shell", J::s(*sn)), ("configs", J::i(cfgs.len() as i64)), ("script_bytes", J::i(reference.script.len() as i64))]));
        }
    }
    // ---- every environment variable the binary consults, one at a time.  The shim logs the
    // names passed to getenv; each is then set to two values (and unset) and the bytes compared.
    let mut env_names: BTreeSet<String> = BTreeSet::new();
    let mut env_runs = 0u64;
    if shim.is_some() {
        let probe_texts: Vec<(String, String)> = vec![("hello".into(), "hello --color=(always | never | auto) <PATH> {{{ echo x }}};\n".into()), gs[0].clone()];
        let logcfg = Config { name: "getenv log, hash seed 0".into(), seed: Some(0), no_aslr: false, env: vec![], clear_env: false, other_cwd: false, stdin: false, prefill: false, env_log: true, dumps: 3 };
        for (name, text) in &probe_texts {
            for (_, sn) in SHELLS {
                let reference = run_config(text, sn, &logcfg, &scratch, &shim);
                env_names.extend(reference.env_names.iter().cloned());
                // an error path consults more (RUST_BACKTRACE, colours): log it too
                let bad = run_config("cmd (;\n", sn, &logcfg, &scratch, &shim);
                env_names.extend(bad.env_names.iter().cloned());
                for var in reference.env_names.iter().cloned().collect::<BTreeSet<String>>() {
                    if var == "LD_PRELOAD" || var.starts_with("LD_") || var.starts_with("GLIBC_") || var.starts_with("MALLOC_") {
                        // loader / allocator switches of the C library, not of complgen
                        continue;
                    }
                    for val in ["1", "zz 9/\u{e9}"] {
                        let cfg = Config { name: format!("{var}={val:?}, hash seed 0"), seed: Some(0), no_aslr: false, env: vec![(var.clone(), val.to_string())], clear_env: false, other_cwd: false, stdin: false, prefill: false, env_log: false, dumps: 3 };
                        let out = run_config(text, sn, &cfg, &scratch, &shim);
                        env_runs += 1;
                        evals += 1;
                        distinct.insert(fnv(&format!("{name}{sn}{}", cfg.name)));
                        if out.status != reference.status || out.script != reference.script || out.dfa != reference.dfa || out.regex != reference.regex {
                            rep.violation(
                                "output-depends-on-environment-variable",
                                format!("{name} --{sn}: the output changes when the environment variable {var} (which the binary reads) is set to {val:?}"),
                                J::obj(vec![("grammar", J::s(text)), ("shell", J::s(sn)), ("variable", J::s(&var)), ("value", J::s(val)), ("reproduce", J::s(format!("{var}={val:?} complgen --{sn} OUT --dfa D --regex R FILE   # compare with the variable unset")))]),
                            );
                        }
                    }
                }
            }
        }
    }
    rep.cov("runs_replayed_because_they_ended_without_exit_code", J::i(transient as i64));
    rep.cov("environment_variables_the_binary_reads", J::arr_s(env_names.iter().cloned()));
    rep.cov("single_variable_runs", J::i(env_runs as i64));
    // ---- in-process histories: what the process compiled before must not matter
    let exe = std::env::current_exe().unwrap();
    let files: Vec<(String, PathBuf)> = [("wide", wide_grammar(false)), ("wide-reversed", wide_grammar(true)), ("hello", "hello --color=(always | never | auto);\n".to_string()), ("strace", crate::corpus::TEXTS[1].1.to_string())]
        .iter()
        .map(|(n, t)| {
            let p = scratch.path(&format!("{n}.usage"));
            std::fs::write(&p, t).unwrap();
            (n.to_string(), p)
        })
        .collect();
    let mut histories = 0u64;
    for (_, sn) in SHELLS {
        let mut seen: std::collections::BTreeMap<String, (String, String)> = std::collections::BTreeMap::new();
        let mut hist: Vec<Vec<usize>> = (0..files.len()).map(|i| vec![i]).collect();
        hist.extend(permutations(3));
        if tier == Tier::Thorough {
            hist.extend(permutations(4));
        }
        hist.push(vec![0, 0, 1, 1, 0]);
        for h in hist {
            histories += 1;
            evals += 1;
            let out = std::process::Command::new(&exe).arg("c10-worker").arg(sn).args(h.iter().map(|i| files[*i].1.clone())).output().expect("worker");
            let text = String::from_utf8_lossy(&out.stdout).to_string();
            let hname = h.iter().map(|i| files[*i].0.clone()).collect::<Vec<_>>().join(" -> ");
            for line in text.lines() {
                let Some((f, rest)) = line.split_once(' ') else { continue };
                match seen.get(f) {
                    None => {
                        seen.insert(f.to_string(), (rest.to_string(), hname.clone()));
                    }
                    Some((want, first)) => {
                        if want != rest {
                            rep.violation(
                                "output-depends-on-process-history",
                                format!("--{sn}: compiling {} inside one process after [{hname}] gives other bytes than in [{first}]", f.rsplit('/').next().unwrap_or(f)),
                                J::obj(vec![("shell", J::s(sn)), ("history", J::s(&hname)), ("first_history", J::s(first)), ("file", J::s(f)), ("hashes", J::s(format!("{want} vs {rest}")))]),
                            );
                        }
                    }
                }
            }
        }
        // and the fresh binary agrees with the in-process result (version-normalised)
        for (n, p) in &files {
            let text = std::fs::read_to_string(p).unwrap();
            let r = binrun::compile_stdio(text.as_bytes(), sn, &scratch);
            evals += 1;
            let shell_e = SHELLS.iter().find(|(_, x)| x == &sn).unwrap().0;
            if let Outcome::Ok(c) = pipe::compile(&text, shell_e) {
                let lib = pipe::emit(&c, shell_e).unwrap_or_default();
                let a = binrun::normalise_version(&lib, &binrun::library_version());
                let b = binrun::normalise_version(&r.stdout, &binrun::binary_version(&scratch));
                if a != b {
                    rep.violation(
                        "in-process-differs-from-fresh-process",
                        format!("--{sn}: {n} compiled inside the long-running harness process differs from a fresh complgen process"),
                        J::obj(vec![("shell", J::s(sn)), ("grammar", J::s(&text))]),
                    );
                }
            }
        }
    }
    // ---- in-process repetition of grammars with twin within-word expressions: every compile
    // creates fresh randomly keyed interning tables, so repeating sweeps that key space
    let twins: Vec<String> = vec![
        "cmd <X> || <X> || b;\n<X> = a<Y>;\n<Y> = a || a;\n".into(),
        "cmd (<X> || <X>)...;\n<X> = a<Y>;\n<Y> = a || a;\n".into(),
        "cmd x=(p || q) | y=(q || p) || x=(q || p);\n".into(),
        "cmd --a=(u \"d\" | v) c || --a=(v | u \"d\") d;\n".into(),
        wide_grammar(false),
    ];
    let mut twin_reps = 0u64;
    for text in &twins {
        for (shell, sn) in SHELLS {
            let first = match pipe::compile(text, shell) {
                Outcome::Ok(c) => (pipe::emit(&c, shell).unwrap_or_default(), pipe::dfa_dot(&c, shell).unwrap_or_default()),
                _ => continue,
            };
            let reps = if text.len() > 400 { tier.pick(60, 1000) } else { tier.pick(600, 20000) };
            for i in 0..reps {
                twin_reps += 1;
                if let Outcome::Ok(c) = pipe::compile(text, shell) {
                    let again = (pipe::emit(&c, shell).unwrap_or_default(), pipe::dfa_dot(&c, shell).unwrap_or_default());
                    if again != first {
                        rep.violation(
                            "in-process-repetition-differs",
                            format!("compiling `{}` for --{sn} again in the same process (repetition {i}) gives different bytes", text.trim_end().replace('\n', " ")),
                            J::obj(vec![("grammar", J::s(text)), ("shell", J::s(sn)), ("repetition", J::i(i as i64))]),
                        );
                        break;
                    }
                }
            }
        }
    }
    evals += twin_reps;
    rep.cov("twin_grammar_repetitions", J::i(twin_reps as i64));
    // ---- Eq/Hash agreement of everything that is interned, decided pair by pair with a fixed
    // hasher: the deterministic counterpart of the seed sweeps above
    let mut law_grammars = 0u64;
    {
        let mut fam: Vec<crate::ast::G> = vec![];
        crate::fam::twin_words(3, &mut |g| fam.push(g));
        crate::fam::redundant_twins(&mut |g| fam.push(g));
        crate::fam::nested_words(&mut |g| fam.push(g));
        crate::fam::single_call(crate::fam::v0(), tier.pick(4, 5), &mut |g| fam.push(g));
        let mut texts: Vec<String> = fam.iter().map(crate::ast::print_grammar).collect();
        texts.extend(twins.iter().cloned());
        texts.extend(crate::corpus::TEXTS.iter().map(|(_, t)| t.to_string()));
        for (_, t) in crate::corpus::examples() {
            texts.push(t);
        }
        for text in &texts {
            for (shell, _) in SHELLS {
                if let Outcome::Ok(c) = pipe::compile(text, shell) {
                    law_grammars += 1;
                    let subs = crate::props::c02::rebuilt_subs(&c);
                    if let Err((k, s, d)) = crate::props::c02::hash_laws(text, shell, &c, &subs) {
                        rep.violation(&k, s, d);
                    }
                }
            }
        }
    }
    evals += law_grammars;
    rep.cov("grammar_x_shell_checked_for_eq_hash_agreement", J::i(law_grammars as i64));
    // ---- in-process repetition on the small family
    let mut reps = 0u64;
    crate::fam::single_call(crate::fam::v0(), tier.pick(3, 4), &mut |g| {
        let text = crate::ast::print_grammar(&g);
        for (shell, sn) in SHELLS {
            if let (Outcome::Ok(a), Outcome::Ok(b)) = (pipe::compile(&text, shell), pipe::compile(&text, shell)) {
                reps += 1;
                if pipe::emit(&a, shell) != pipe::emit(&b, shell) || pipe::dfa_dot(&a, shell) != pipe::dfa_dot(&b, shell) {
                    rep.violation("in-process-repetition-differs", format!("compiling `{}` twice in one process for --{sn} gives different bytes", text.trim_end()), J::obj(vec![("grammar", J::s(&text)), ("shell", J::s(sn))]));
                }
            }
        }
    });
    evals += reps;
    rep.cov("evaluations", J::i(evals as i64));
    rep.cov("distinct_nontrivial", J::i(distinct.len() as i64));
    rep.cov("grammars", J::i(gs.len() as i64));
    rep.cov("configurations_per_grammar_and_shell", J::i(cfgs.len() as i64));
    rep.cov("configuration_names", J::arr_s(cfgs.iter().map(|c| c.name.clone())));
    rep.cov("runs_in_which_the_binary_asked_for_os_randomness", J::i(asked as i64));
    rep.cov("in_process_histories", J::i(histories as i64));
    rep.cov("in_process_repetitions", J::i(reps as i64));
    rep.cov(
        "rule",
        J::s("controlled-nondeterminism sweep (exhaustive over the configuration matrix, a sweep of the 2^128 seed space): grammars = two synthetic wide grammars (40 equal-length literals, 8 commands under ||, 7 within-word automata of equal and different shape; second one with every list reversed) + corpus + examples/*.usage; x 4 shells; outputs = script, --dfa file, --regex file; configurations = hash seeds 0..K-1 through an LD_PRELOAD getrandom shim (owning std's RandomState), a replay of seed 0, ASLR off with and without the shim, OS randomness, empty / large / odd environment, other cwd, grammar on stdin, destination files that exist already with longer content, the script requested alone / with one of the two dumps; every environment variable the binary passes to getenv (logged by the shim) set to two values, one variable at a time. All must equal the seed-0 run byte for byte. In-process histories: every single file, every order of three (thorough: four) grammars and a repetition history are compiled inside one fresh worker process each; every file's three output hashes must be the same in all histories, and equal to a fresh binary's bytes. Eq/Hash agreement: for twin-word, redundant-twin, nested-word families, all trees <= 4 (5) nodes, the corpus and the examples x 4 shells, every pair of regex inputs, pooled within-word regexes and rebuilt within-word automata that compare equal must hash equal under a fixed-key hasher (otherwise interning depends on the seed). In-process repetition on all trees <= 3 (4) nodes, and 600 (20000) repetitions of grammars with twin within-word expressions (each compile uses freshly keyed interning tables). distinct = distinct (grammar, shell, configuration)."),
    );
    rep.cov("exhaustive", J::Bool(false));
    rep.cov("samples", J::Arr(samples.items));
    rep.assume("the getrandom shim intercepts the only randomness source a Rust std process draws hash seeds from (strace on the pinned binary: one getrandom(16)); work-list pop order inside the library is not perturbed (fixed-key hashers today)");
    rep
}
