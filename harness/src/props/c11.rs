//! C11 — the definition chosen for a nonterminal is the one for the target shell.

use crate::ast::{print_grammar, Stmt, E, G};
use crate::json::J;
use crate::pipe::{self, Outcome, Shell, SHELLS};
use crate::props::c02;
use crate::report::{Report, Samples, Tier};
use std::collections::BTreeSet;

const KINDS: [&str; 5] = ["plain", "bash", "fish", "zsh", "pwsh"];

fn probe(kind: &str) -> String {
    format!("echo PROBE_{kind}")
}

fn site(name: &str, which: usize) -> (E, Vec<Stmt>) {
    let r = E::r(name);
    match which {
        0 => (r, vec![]),
        1 => (E::Word(vec![E::lit("--opt="), r]), vec![]),
        2 => (E::r("Y"), vec![crate::fam::def("Y", E::Seq(vec![E::lit("y"), r]))]),
        3 => (E::Fb(vec![E::lit("first"), r]), vec![]),
        4 => (E::Seq(vec![E::Opt(Box::new(E::lit("-v"))), E::Many(Box::new(r))]), vec![]),
        5 => (E::r("Y"), vec![crate::fam::def("Y", E::Word(vec![E::lit("k="), r]))]),
        // through a chain of two and three definitions (the reference is not visible from the
        // call variant's direct references)
        6 => (E::r("Z"), vec![crate::fam::def("Z", E::Seq(vec![E::lit("z"), E::r("Y")])), crate::fam::def("Y", E::Alt(vec![E::lit("y"), r]))]),
        7 => (
            E::Seq(vec![E::lit("s"), E::r("W")]),
            vec![crate::fam::def("Y", E::Opt(Box::new(r))), crate::fam::def("W", E::r("Z")), crate::fam::def("Z", E::Seq(vec![E::lit("z"), E::r("Y")]))],
        ),
        8 => (E::r("Z"), vec![crate::fam::def("Z", E::r("Y")), crate::fam::def("Y", E::Word(vec![E::lit("k="), r]))]),
        // referenced more than once: in a row, in two words, directly and through a definition
        9 => (E::Seq(vec![r.clone(), r]), vec![]),
        10 => (E::Alt(vec![E::Word(vec![E::lit("--a="), r.clone()]), E::Word(vec![E::lit("--b="), r])]), vec![]),
        11 => (E::Seq(vec![E::r("Y"), E::lit("m"), r.clone()]), vec![crate::fam::def("Y", E::Alt(vec![E::lit("y"), r]))]),
        // next to the other built-in name, which has a plain command definition of its own
        _ => {
            let other = if name == "DIRECTORY" { "PATH" } else { "DIRECTORY" };
            (E::Seq(vec![E::r(other), r, E::Word(vec![E::lit("o="), E::r(other)])]), vec![crate::fam::def(other, E::cmd("echo OTHER_plain"))])
        }
    }
}

const NSITES: usize = 13;

pub fn run(tier: Tier) -> Report {
    let mut rep = Report::new("C11", tier, "exploration");
    let mut evals = 0u64;
    let mut distinct: BTreeSet<u64> = BTreeSet::new();
    let mut chosen_kinds: BTreeSet<String> = BTreeSet::new();
    let mut samples = Samples::new(10);
    let mut states = 0u64;
    let _ = tier;

    // plain definition flavours: none, a command, (for every name) a non-command expression
    for name in ["X", "PATH", "DIRECTORY", "file name", "\u{444}\u{430}\u{439}\u{43b}.\u{e9}"] {
        for plain_kind in 0..3 {
            for mask in 0..16u32 {
                for which in 0..NSITES {
                    // a non-command plain definition cannot coexist with @shell definitions for the
                    // target (complgen rejects that by design, C08) -> only with mask == 0 or
                    // when the target has no specialization; handled below per target
                    let (expr, mut extra) = site(name, which);
                    let mut stmts = vec![Stmt::Call { name: "cmd".into(), expr }];
                    stmts.append(&mut extra);
                    match plain_kind {
                        1 => stmts.push(crate::fam::def(name, E::cmd(&probe("plain")))),
                        2 => stmts.push(crate::fam::def(name, E::Alt(vec![E::lit("foo"), E::lit("bar")]))),
                        _ => {}
                    }
                    for (i, sh) in KINDS[1..].iter().enumerate() {
                        if mask & (1 << i) != 0 {
                            stmts.push(crate::fam::spec(name, sh, &probe(sh)));
                        }
                    }
                    let g = G { stmts };
                    let text = print_grammar(&g);
                    for (ti, (shell, shell_name)) in SHELLS.iter().enumerate() {
                        let has_target_spec = mask & (1 << ti) != 0;
                        if plain_kind == 2 && has_target_spec {
                            continue; // rejected by design: "shell-specific definition ... plain is not a command"
                        }
                        evals += 1;
                        distinct.insert(crate::report::fnv(&format!("{text}{shell_name}")));
                        // expected choice (R1)
                        let expected: String = if has_target_spec {
                            shell_name.to_string()
                        } else if plain_kind == 1 {
                            "plain".into()
                        } else if plain_kind == 2 {
                            "plain-expression".into()
                        } else if name == "PATH" || name == "DIRECTORY" {
                            "builtin".into()
                        } else {
                            "any-word".into()
                        };
                        chosen_kinds.insert(expected.clone());
                        let detail = |why: &str| {
                            J::obj(vec![
                                ("grammar", J::s(&text)),
                                ("shell", J::s(*shell_name)),
                                ("expected_choice", J::s(&expected)),
                                ("why", J::s(why)),
                                ("reproduce", J::s(format!("complgen --{shell_name} - <file with the grammar>"))),
                            ])
                        };
                        let c = match pipe::compile(&text, *shell) {
                            Outcome::Ok(c) => c,
                            Outcome::Err(e) => {
                                rep.violation(
                                    "rejected",
                                    format!("grammar with definitions {{{}}} of <{name}> is rejected for --{shell_name}: {}", describe(plain_kind, mask), pipe::error_kind(&e)),
                                    detail("rejected"),
                                );
                                continue;
                            }
                            Outcome::Panic(p) => {
                                rep.violation("crash", format!("pipeline panicked: {p}"), detail("panic"));
                                continue;
                            }
                        };
                        // (1) automaton = reference (R1 is built into the reference)
                        match c02::check_one(&g, &text, *shell, &c) {
                            Ok(r) => states += r.stats.states,
                            Err((k, s, _)) => {
                                rep.violation(
                                    &format!("wrong-definition-{expected}"),
                                    format!("<{name}> with definitions {{{}}} for --{shell_name}: expected the {expected} meaning; {k}: {s}", describe(plain_kind, mask)),
                                    detail(&s),
                                );
                                continue;
                            }
                        }
                        // (2) the emitted script runs exactly the chosen command text
                        let script = match pipe::emit(&c, *shell) {
                            Ok(s) => String::from_utf8_lossy(&s).to_string(),
                            Err(e) => {
                                rep.violation("crash", format!("emitter failed: {e}"), detail("emit"));
                                continue;
                            }
                        };
                        for kind in KINDS {
                            let present = script.contains(&format!("PROBE_{kind}")) ;
                            let want = kind == expected;
                            if present != want {
                                rep.violation(
                                    &format!("script-runs-wrong-command-{expected}"),
                                    format!("emitted --{shell_name} script {} the command of the `{kind}` definition of <{name}> (expected choice: {expected})", if present { "contains" } else { "lacks" }),
                                    detail("script text"),
                                );
                            }
                        }
                        if expected == "builtin" {
                            let b = crate::refsem::builtin_cmd(name, *shell).unwrap();
                            if !script.contains(b) {
                                rep.violation("script-lacks-builtin", format!("emitted --{shell_name} script lacks the built-in completion of <{name}>"), detail("script text"));
                            }
                        }
                        // (3) definitions for other shells never influence the result
                        let g_only = G {
                            stmts: g
                                .stmts
                                .iter()
                                .filter(|s| !matches!(s, Stmt::Def { shell: Some(sh), .. } if sh != shell_name))
                                .cloned()
                                .collect(),
                        };
                        if g_only.stmts.len() != g.stmts.len() {
                            let text2 = print_grammar(&g_only);
                            evals += 1;
                            match pipe::compile(&text2, *shell) {
                                Outcome::Ok(c2) => {
                                    let s2 = pipe::emit(&c2, *shell).map(|b| String::from_utf8_lossy(&b).to_string()).unwrap_or_default();
                                    if s2 != script {
                                        rep.violation(
                                            "other-shell-definition-influences-output",
                                            format!("removing the definitions for other shells changes the --{shell_name} script"),
                                            J::obj(vec![("grammar", J::s(&text)), ("without_other_shells", J::s(&text2)), ("shell", J::s(*shell_name))]),
                                        );
                                    }
                                }
                                _ => rep.violation(
                                    "other-shell-definition-influences-verdict",
                                    format!("removing the definitions for other shells changes the verdict for --{shell_name}"),
                                    J::obj(vec![("grammar", J::s(&text)), ("without_other_shells", J::s(&text2))]),
                                ),
                            }
                        }
                        samples.offer(|| J::obj(vec![("grammar", J::s(text.trim_end())), ("shell", J::s(*shell_name)), ("expected_choice", J::s(&expected))]));
                    }
                }
            }
        }
    }
    rep.cov("evaluations", J::i(evals as i64));
    rep.cov("distinct_nontrivial", J::i(distinct.len() as i64));
    rep.cov("distinct_expected_choices", J::arr_s(chosen_kinds.into_iter()));
    rep.cov("product_states", J::i(states as i64));
    rep.cov(
        "rule",
        J::s("exhaustive: name in {X, PATH, DIRECTORY, a name with a blank, a non-ASCII name} x plain definition in {none, command, non-command expression} x all 2^4 subsets of {@bash,@fish,@zsh,@pwsh} command definitions (distinct probe texts) x 13 reference sites (two references in a row, in two words, directly plus through a definition, next to the other built-in name with a plain definition of its own; top level, tail of a word, through a definition, under ||, under [] ..., through a definition inside a word, through chains of two and three definitions, through a chain into a word) x 4 targets. Per case: full product equivalence with the reference automaton (R1 built in), presence/absence of every probe text in the emitted script, byte-equality of the script with other-shell definitions removed. distinct = distinct (grammar text, target) pairs."),
    );
    rep.cov("exhaustive", J::Bool(true));
    rep.cov("samples", J::Arr(samples.items));
    rep.assume("the texts of the built-in PATH/DIRECTORY completers per shell are those listed in harness/src/refsem.rs");
    rep
}

fn describe(plain_kind: usize, mask: u32) -> String {
    let mut v = vec![];
    match plain_kind {
        1 => v.push("plain command".to_string()),
        2 => v.push("plain expression".to_string()),
        _ => {}
    }
    for (i, sh) in KINDS[1..].iter().enumerate() {
        if mask & (1 << i) != 0 {
            v.push(format!("@{sh}"));
        }
    }
    v.join(", ")
}
