pub mod c02;
pub mod c05;
pub mod c03;
pub mod c09;
pub mod c11;
pub mod c08;
pub mod c15;
pub mod c06;
