pub mod c02;
pub mod c05;
