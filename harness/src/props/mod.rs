pub mod c02;
pub mod c05;
pub mod c03;
