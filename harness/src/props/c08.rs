//! C08 — grammar mistakes are rejected with the right diagnostic; clean grammars pass.

use crate::ast::{print_grammar, Stmt, E, G};
use crate::fam::{call, def, spec};
use crate::json::J;
use crate::pipe::{self, Outcome, Shell, SHELLS};
use crate::r8::{classify, Tri};
use crate::report::{Report, Samples, Tier};
use std::collections::{BTreeMap, BTreeSet};

#[derive(Default)]
pub struct Acc {
    evals: u64,
    clean_accepted: u64,
    mistake_rejected: BTreeMap<String, u64>,
    skipped_unclear: u64,
    distinct: BTreeSet<u64>,
    viol: Vec<(String, String, J)>,
    samples: Option<Samples>,
}

pub fn work(acc: &mut Acc, g: G, shells: &[Shell]) {
    let text = print_grammar(&g);
    for shell in shells {
        acc.evals += 1;
        let sn = pipe::shell_name(*shell);
        let cls = classify(&g, *shell);
        let yes = cls.yes();
        let unclear = cls.unclear();
        let detail = |why: String| {
            J::obj(vec![
                ("grammar", J::s(&text)),
                ("shell", J::s(sn)),
                ("expected_mistake_classes", J::arr_s(yes.iter().map(|s| s.to_string()))),
                ("unclear_classes", J::arr_s(unclear.iter().map(|s| s.to_string()))),
                ("observed", J::s(why)),
                ("reproduce", J::s(format!("printf '%s' '{}' | complgen --{sn} - -", text.replace('\'', "'\\''")))),
            ])
        };
        let outcome = pipe::compile(&text, *shell);
        let observed: Result<(), String> = match &outcome {
            Outcome::Ok(_) => Ok(()),
            Outcome::Err(e) => Err(pipe::error_kind(e).to_string()),
            Outcome::Panic(p) => {
                acc.viol.push(("crash".into(), format!("pipeline panicked: {p}"), detail(format!("panic: {p}"))));
                continue;
            }
        };
        if yes.is_empty() && !unclear.is_empty() {
            acc.skipped_unclear += 1;
            continue;
        }
        acc.distinct.insert(crate::report::fnv(&format!("{text}{sn}")));
        match (yes.is_empty(), observed) {
            (true, Ok(())) => {
                acc.clean_accepted += 1;
            }
            (true, Err(kind)) => acc.viol.push((
                format!("clean-rejected-{kind}"),
                format!("a grammar free of every listed mistake is rejected for --{sn} with {kind}"),
                detail(kind.clone()),
            )),
            (false, Ok(())) => acc.viol.push((
                format!("mistake-accepted-{}", yes.join("+")),
                format!("a grammar with mistake(s) {yes:?} is accepted for --{sn}"),
                detail("accepted".into()),
            )),
            (false, Err(kind)) => {
                if cls.admits(&kind) {
                    *acc.mistake_rejected.entry(kind.clone()).or_default() += 1;
                    if let Some(s) = acc.samples.as_mut() {
                        s.offer(|| J::obj(vec![("grammar", J::s(text.trim_end())), ("shell", J::s(sn)), ("rejected_as", J::s(&kind))]));
                    }
                } else {
                    acc.viol.push((
                        format!("wrong-diagnostic-{kind}-for-{}", yes.join("+")),
                        format!("a grammar with mistake(s) {yes:?} is rejected for --{sn} with the unrelated diagnostic {kind}"),
                        detail(kind.clone()),
                    ));
                }
            }
        }
    }
}

// ---------------------------------------------------------------------------------------------
// planted mistakes
// ---------------------------------------------------------------------------------------------

/// contexts: place a payload expression somewhere in an otherwise clean grammar
fn contexts(payload: &E, in_word_ok: bool) -> Vec<G> {
    let p = || payload.clone();
    let mut v = vec![
        call(p()),
        call(E::Seq(vec![E::lit("s"), p()])),
        call(E::Seq(vec![p(), E::lit("t")])),
        call(E::Opt(Box::new(p()))),
        call(E::Many(Box::new(p()))),
        call(E::Alt(vec![E::lit("o"), p()])),
        call(E::Fb(vec![E::lit("o"), p()])),
        call(E::Fb(vec![p(), E::lit("o")])),
        call(E::Seq(vec![E::Opt(Box::new(E::lit("-v"))), E::Alt(vec![E::Seq(vec![E::lit("sub"), p()]), E::lit("other")])])),
        G { stmts: vec![Stmt::Call { name: "cmd".into(), expr: E::r("D") }, def("D", p())] },
        G { stmts: vec![def("D", p()), Stmt::Call { name: "cmd".into(), expr: E::Seq(vec![E::lit("s"), E::r("D")]) }] },
        G { stmts: vec![Stmt::Call { name: "cmd".into(), expr: E::r("D1") }, def("D1", E::Alt(vec![E::lit("o"), E::r("D2")])), def("D2", p())] },
        G { stmts: vec![Stmt::Call { name: "cmd".into(), expr: E::lit("x") }, Stmt::Call { name: "cmd".into(), expr: p() }] },
    ];
    // far from the start: after 300 mandatory words, and behind a chain of 40 definitions
    {
        let mut items: Vec<E> = (0..300).map(|i| E::lit(&format!("w{i}"))).collect();
        items.push(p());
        v.push(call(E::Seq(items)));
        let mut stmts = vec![Stmt::Call { name: "cmd".into(), expr: E::r("K0") }];
        for i in 0..40 {
            stmts.push(def(&format!("K{i}"), E::Seq(vec![E::lit(&format!("k{i}")), E::r(&format!("K{}", i + 1))])));
        }
        stmts.push(def("K40", p()));
        v.push(G { stmts });
    }
    if in_word_ok {
        v.push(call(E::Word(vec![E::lit("--o="), p()])));
        v.push(G { stmts: vec![Stmt::Call { name: "cmd".into(), expr: E::Word(vec![E::lit("--o="), E::r("D")]) }, def("D", p())] });
    }
    v
}

fn planted(f: &mut dyn FnMut(G)) {
    let lit = E::lit;
    let word = |v: Vec<E>| E::Word(v);
    // --- spaces inside a word
    let space_payloads = vec![
        word(vec![lit("x="), E::Seq(vec![lit("a"), lit("b")])]),
        word(vec![lit("x="), E::Opt(Box::new(E::Seq(vec![lit("a"), lit("b")])))]),
        word(vec![lit("x="), E::Alt(vec![lit("c"), E::Seq(vec![lit("a"), lit("b")])])]),
        word(vec![lit("x="), E::Many(Box::new(E::Seq(vec![lit("a"), lit("b"), lit("c")])))]),
        word(vec![E::r("U2"), E::Seq(vec![E::Seq(vec![lit("a"), lit("b")]), E::cmd("c1")])]),
    ];
    for p in &space_payloads {
        for g in contexts(p, false) {
            f(g);
        }
    }
    // through definitions of depth 1 and 2 (the aerc example of check.rs)
    for body in [E::Seq(vec![lit("quit"), lit("-f")]), E::Alt(vec![lit("q"), E::Seq(vec![lit("quit"), lit("-f")])]), E::Opt(Box::new(E::Seq(vec![lit("a"), lit("b")])))] {
        f(G { stmts: vec![Stmt::Call { name: "cmd".into(), expr: word(vec![lit(":"), E::r("C")]) }, def("C", body.clone())] });
        f(G { stmts: vec![def("C", body.clone()), Stmt::Call { name: "cmd".into(), expr: E::Seq(vec![lit("s"), word(vec![lit(":"), E::r("C")])]) }] });
        f(G {
            stmts: vec![Stmt::Call { name: "cmd".into(), expr: word(vec![lit(":"), E::r("C")]) }, def("C", E::Alt(vec![lit("o"), E::r("C2")])), def("C2", body.clone())],
        });
        // one definition referenced both as a word of its own and inside a word, either order
        f(G { stmts: vec![Stmt::Call { name: "cmd".into(), expr: E::Alt(vec![E::r("C"), word(vec![lit(":"), E::r("C")])]) }, def("C", body.clone())] });
        f(G { stmts: vec![Stmt::Call { name: "cmd".into(), expr: E::Alt(vec![word(vec![lit(":"), E::r("C")]), E::r("C")]) }, def("C", body.clone())] });
        f(G {
            stmts: vec![
                Stmt::Call { name: "cmd".into(), expr: E::Seq(vec![lit("run"), E::r("C")]) },
                Stmt::Call { name: "cmd".into(), expr: E::Seq(vec![lit("exec"), word(vec![lit("--do="), E::r("C")])]) },
                def("C", body.clone()),
            ],
        });
        f(G { stmts: vec![Stmt::Call { name: "cmd".into(), expr: E::Seq(vec![E::Many(Box::new(E::Opt(Box::new(E::r("C"))))), word(vec![lit("--set="), E::r("C")])]) }, def("C", body.clone())] });
        f(G {
            stmts: vec![
                Stmt::Call { name: "cmd".into(), expr: E::Seq(vec![E::r("P"), word(vec![lit("k="), E::r("P")])]) },
                def("P", E::Alt(vec![lit("o"), E::r("C")])),
                def("C", body.clone()),
            ],
        });
        // the same definition used only outside a word is fine
        f(G { stmts: vec![Stmt::Call { name: "cmd".into(), expr: E::Seq(vec![lit(":"), E::r("C")]) }, def("C", body.clone())] });
    }
    // --- placeholder inside a word that something can follow / clean tail placeholders
    let u = || E::r("U");
    let ph_payloads = vec![
        word(vec![u(), lit("x")]),
        word(vec![lit("x="), u(), lit("y")]),
        word(vec![lit("x="), E::Alt(vec![u(), lit("a")]), lit("y")]),
        word(vec![u(), E::Opt(Box::new(lit("y")))]),
        word(vec![u(), E::r("V")]),
        word(vec![lit("x="), E::Many(Box::new(u()))]),
        word(vec![lit("x="), E::Many(Box::new(E::Alt(vec![lit("a"), u()])))]),
        // clean ones
        word(vec![lit("x="), u()]),
        word(vec![lit("x="), E::Alt(vec![u(), lit("a")])]),
        word(vec![lit("--f="), E::Alt(vec![u(), word(vec![lit("a="), E::Alt(vec![lit("b"), lit("c")])])])]),
        word(vec![lit("x="), E::Opt(Box::new(u()))]),
        word(vec![lit("x="), E::Alt(vec![E::Seq(vec![lit("a"), E::cmd("c1")]), u()])]),
        word(vec![lit("x="), E::Fb(vec![lit("a"), u()])]),
        word(vec![lit("k"), E::Opt(Box::new(lit("="))), E::Alt(vec![lit("v"), u()])]),
    ];
    for p in &ph_payloads {
        for g in contexts(p, false) {
            f(g);
        }
    }
    // --- conflicting descriptions
    let cd_payloads = vec![
        E::Alt(vec![E::litd("a", "x"), E::litd("a", "y")]),
        E::Seq(vec![E::Opt(Box::new(E::litd("a", "x"))), E::litd("a", "y")]),
        E::Fb(vec![E::litd("a", "x"), E::litd("a", "y")]),
        E::Alt(vec![E::Seq(vec![E::litd("a", "x"), lit("p")]), E::Seq(vec![E::litd("a", "y"), lit("q")])]),
        E::Descr(Box::new(E::Alt(vec![lit("a"), E::litd("a", "y")])), "x".into()),
        E::Many(Box::new(E::Alt(vec![E::Seq(vec![lit("p"), E::litd("a", "x")]), E::litd("a", "y")]))),
        // clean: same description twice, different literals
        E::Alt(vec![E::litd("a", "x"), E::litd("a", "x")]),
        E::Alt(vec![E::litd("a", "x"), E::litd("b", "y")]),
        E::Seq(vec![E::litd("a", "x"), E::litd("a", "y")]),
    ];
    for p in &cd_payloads {
        for g in contexts(p, true) {
            f(g);
        }
    }
    f(G { stmts: vec![Stmt::Call { name: "cmd".into(), expr: E::litd("a", "x") }, Stmt::Call { name: "cmd".into(), expr: E::Seq(vec![E::litd("a", "y"), lit("z")]) }] });

    // --- cycles: length 1..3, placement of the reference inside the body, reachability
    let ref_shapes: Vec<Box<dyn Fn(E) -> E>> = vec![
        Box::new(|r| r),
        Box::new(|r| E::Seq(vec![E::lit("x"), r])),
        Box::new(|r| E::Opt(Box::new(r))),
        Box::new(|r| E::Alt(vec![E::lit("a"), r])),
        Box::new(|r| E::Many(Box::new(r))),
        Box::new(|r| E::Word(vec![E::lit("x="), r])),
        Box::new(|r| E::Fb(vec![E::lit("a"), r])),
    ];
    let names = ["A", "B", "C"];
    for len in 1..=3usize {
        for shape in &ref_shapes {
            // definitions A -> B -> C -> A (len 3), etc.
            let mut cyc: Vec<Stmt> = vec![];
            for i in 0..len {
                let next = names[(i + 1) % len];
                cyc.push(def(names[i], shape(E::r(next))));
            }
            for reach in 0..5 {
                for unrelated_root in [false, true] {
                    for defs_first in [false, true] {
                        let mut stmts: Vec<Stmt> = vec![];
                        let mut extra: Vec<Stmt> = vec![];
                        let main = match reach {
                            0 => E::r("A"),                                        // call variant references the cycle
                            1 => E::Seq(vec![E::lit("s"), E::Opt(Box::new(E::r(names[len - 1])))]),
                            2 => {
                                extra.push(def("P", E::Alt(vec![E::lit("p"), E::r("A")]))); // only another definition references it
                                E::r("P")
                            }
                            3 => {
                                extra.push(def("P", E::r("A"))); // referenced by an unused definition
                                E::lit("foo")
                            }
                            _ => E::lit("foo"), // nothing references it
                        };
                        if unrelated_root {
                            extra.push(def("R", E::lit("r")));
                        }
                        let c = Stmt::Call { name: "cmd".into(), expr: main };
                        if defs_first {
                            stmts.extend(cyc.iter().cloned());
                            stmts.extend(extra.iter().cloned());
                            stmts.push(c);
                        } else {
                            stmts.push(c);
                            stmts.extend(extra.iter().cloned());
                            stmts.extend(cyc.iter().cloned());
                        }
                        f(G { stmts });
                    }
                }
            }
        }
    }
    // a cycle broken by a shell-specific definition is no cycle for that shell
    f(G { stmts: vec![Stmt::Call { name: "cmd".into(), expr: E::r("A") }, def("A", E::Seq(vec![E::lit("x"), E::r("B")])), def("B", E::cmd("p")), spec("B", "bash", "b"), ] });
    f(G {
        stmts: vec![
            Stmt::Call { name: "cmd".into(), expr: E::r("A") },
            def("A", E::r("B")),
            def("B", E::r("A")),
            spec("B", "bash", "b"),
        ],
    });

    // --- duplicates
    for order in 0..3 {
        let mut stmts = vec![Stmt::Call { name: "cmd".into(), expr: E::r("X") }, def("X", E::lit("a")), def("X", E::lit("b"))];
        stmts.rotate_left(order);
        f(G { stmts });
    }
    f(G { stmts: vec![Stmt::Call { name: "cmd".into(), expr: E::lit("z") }, def("X", E::lit("a")), def("Y", E::lit("c")), def("X", E::lit("a"))] });
    for sh in ["bash", "fish", "zsh", "pwsh"] {
        f(G { stmts: vec![Stmt::Call { name: "cmd".into(), expr: E::r("X") }, spec("X", sh, "p1"), spec("X", sh, "p2")] });
        f(G { stmts: vec![spec("X", sh, "p1"), Stmt::Call { name: "cmd".into(), expr: E::r("X") }, def("X", E::cmd("p0")), spec("X", sh, "p2")] });
        f(G { stmts: vec![Stmt::Call { name: "cmd".into(), expr: E::r("X") }, spec("X", sh, "p1"), def("X", E::cmd("p0")), def("X", E::cmd("p3"))] });
    }
    // --- command names
    f(G { stmts: vec![def("X", E::lit("a"))] });
    f(G { stmts: vec![] });
    f(G { stmts: vec![Stmt::Call { name: "cmd".into(), expr: E::lit("a") }, Stmt::Call { name: "other".into(), expr: E::lit("b") }] });
    f(G { stmts: vec![Stmt::Call { name: "cmd".into(), expr: E::lit("a") }, def("X", E::lit("q")), Stmt::Call { name: "cmd".into(), expr: E::lit("b") }, Stmt::Call { name: "cmd2".into(), expr: E::r("X") }] });
    for n in ["/bin/cmd", "a/b", "cmd/", "/"] {
        f(G { stmts: vec![Stmt::Call { name: n.into(), expr: E::lit("a") }] });
        f(G { stmts: vec![def("X", E::lit("q")), Stmt::Call { name: n.into(), expr: E::r("X") }, Stmt::Call { name: n.into(), expr: E::lit("b") }] });
    }
    // --- unknown shell / non-command specialization
    for sh in ["tcsh", "sh", "Bash", "bash ", ""] {
        if sh.is_empty() {
            continue;
        }
        f(G { stmts: vec![Stmt::Call { name: "cmd".into(), expr: E::r("X") }, spec("X", sh, "p")] });
        f(G { stmts: vec![spec("X", sh, "p"), Stmt::Call { name: "cmd".into(), expr: E::lit("a") }] });
    }
    for sh in ["bash", "fish", "zsh", "pwsh"] {
        for body in [E::lit("a"), E::Alt(vec![E::lit("a"), E::cmd("c")]), E::r("Y"), E::Opt(Box::new(E::cmd("c"))), E::Seq(vec![E::cmd("c"), E::cmd("d")])] {
            f(G { stmts: vec![Stmt::Call { name: "cmd".into(), expr: E::r("X") }, Stmt::Def { name: "X".into(), shell: Some(sh.into()), expr: body.clone() }] });
            f(G { stmts: vec![Stmt::Call { name: "cmd".into(), expr: E::lit("a") }, Stmt::Def { name: "X".into(), shell: Some(sh.into()), expr: body.clone() }] });
        }
        // clean: shell-specific next to a plain command definition / alone / unused
        f(G { stmts: vec![Stmt::Call { name: "cmd".into(), expr: E::r("X") }, spec("X", sh, "p1"), def("X", E::cmd("p0"))] });
        f(G { stmts: vec![Stmt::Call { name: "cmd".into(), expr: E::Word(vec![E::lit("--u="), E::r("X")]) }, spec("X", sh, "p1")] });
    }
}

pub fn run(tier: Tier) -> Report {
    let mut rep = Report::new("C08", tier, "fault_enumeration");
    let all: Vec<Shell> = SHELLS.iter().map(|(s, _)| *s).collect();
    let k = tier.pick(5, 6);
    let (km, k1, k2) = tier.pick((3, 3, 2), (4, 3, 2));
    let n = crate::par::nthreads();
    let accs = crate::par::run(
        n,
        |push| {
            planted(&mut |g| push((g, true)));
            for g in crate::corpus::grammars() {
                push((g, true));
            }
            crate::fam::with_defs(km, k1, k2, &mut |g| push((g, false)));
            for n in 2..=5 {
                crate::fam::def_dags(n, &mut |g| push((g, false)));
            }
            crate::fam::single_call(crate::fam::v0(), k, &mut |g| push((g, false)));
        },
        || Acc { samples: Some(Samples::new(3)), ..Default::default() },
        |acc, (g, all_shells): (G, bool)| {
            if all_shells {
                work(acc, g, &all)
            } else {
                work(acc, g, &[Shell::Bash, Shell::Zsh])
            }
        },
    );
    let mut t = Acc { samples: Some(Samples::new(14)), ..Default::default() };
    for a in accs {
        t.evals += a.evals;
        t.clean_accepted += a.clean_accepted;
        t.skipped_unclear += a.skipped_unclear;
        for (k, v) in a.mistake_rejected {
            *t.mistake_rejected.entry(k).or_default() += v;
        }
        t.distinct.extend(a.distinct);
        t.viol.extend(a.viol);
        if let (Some(x), Some(s)) = (t.samples.as_mut(), a.samples) {
            x.merge(s);
        }
    }
    for (k, s, d) in &t.viol {
        rep.violation(k, s.clone(), d.clone());
    }
    let mut planted_n = 0u64;
    planted(&mut |_| planted_n += 1);
    rep.cov("evaluations", J::i(t.evals as i64));
    rep.cov("distinct_nontrivial", J::i(t.distinct.len() as i64));
    rep.cov("planted_grammars", J::i(planted_n as i64));
    rep.cov("clean_and_accepted", J::i(t.clean_accepted as i64));
    rep.cov("mistakes_rejected_by_kind", J::Obj(t.mistake_rejected.iter().map(|(k, v)| (k.clone(), J::i(*v as i64))).collect()));
    rep.cov("skipped_neither_verdict_demanded", J::i(t.skipped_unclear as i64));
    rep.cov(
        "rule",
        J::s(format!(
            "exhaustive placement: every mistake class (spaces inside a word directly / through 1-2 definitions; placeholder that something can follow; conflicting descriptions directly, via [], via two call variants, inside a word; cycles of length 1-3 x 7 reference shapes x 5 reachability situations x unrelated root x statement order; duplicate plain / @target / @other definitions in every order; missing / varying / invalid command names; unknown shells; non-command specializations) planted in every context of a fixed list of 15-17 grammar contexts (incl. after 300 mandatory words and behind a chain of 40 definitions), x 4 shells; plus the verdict of every tree <= {k} nodes over V0 and of the definition family (bash, zsh) against the reference classification R8. A case is non-trivial/distinct per (grammar text, shell) with a demanded verdict; cases where statement and code can be read either way (juxtaposed literals a(b), literal adjacency through [] or a definition, described vs undescribed literal) are counted as skipped."
        )),
    );
    rep.cov("exhaustive", J::Bool(true));
    rep.cov("samples", J::Arr(t.samples.map(|s| s.items).unwrap_or_default()));
    rep.assume("reference classification R8 (harness/src/r8.rs): graph cycles over the definitions in effect for the target, semantic 'something can follow a placeholder' on the reference within-word automaton, 'same literal, two descriptions at one point' on the reference automaton determinised by word");
    rep
}
