//! C02 — compiled automaton == grammar language, labels included (product model checking).

use crate::ast::{print_grammar, G};
use crate::auto::{equivalent_l, ProductStats};
use crate::json::J;
use crate::pipe::{self, Outcome, Shell, SHELLS};
use crate::refsem;
use crate::report::{Report, Samples, Tier};
use crate::view::Keys;
use std::collections::BTreeMap;

#[derive(Default)]
pub struct Acc {
    pub grammars: u64,
    pub runs: u64,
    pub accepted: u64,
    pub rejected: BTreeMap<String, u64>,
    pub strict: u64,
    pub lenient: u64,
    pub states: u64,
    pub transitions: u64,
    pub shapes: std::collections::BTreeSet<u64>,
    pub violations: Vec<(String, String, J)>,
    pub samples: Option<Samples>,
    pub with_sub: u64,
}

pub struct OneResult {
    pub stats: ProductStats,
    pub strict: bool,
}

/// Compare one compiled grammar against its reference; returns Err((key, summary, detail)).
pub fn check_one(g: &G, text: &str, shell: Shell, c: &pipe::Compiled) -> Result<OneResult, (String, String, J)> {
    let r = match refsem::reference(g, shell) {
        Ok(r) => r,
        Err(e) => {
            return Err((
                "accepted-but-reference-rejects".into(),
                format!("complgen accepts a grammar whose definitions are cyclic ({e:?})"),
                J::obj(vec![("grammar", J::s(text)), ("shell", J::s(pipe::shell_name(shell)))]),
            ));
        }
    };
    let strict = !r.dontcare;
    let mut total = ProductStats::default();
    for (which, dfa) in [("raw", &c.raw), ("minimized", &c.min)] {
        let mut keys = Keys::new(strict);
        let a = keys.ref_lnfa(&r);
        let b = keys.impl_lnfa(dfa, dfa);
        match equivalent_l(&a, &b) {
            Ok(st) => {
                total.states += st.states;
                total.transitions += st.transitions;
            }
            Err((cex, _)) => {
                let path = keys.render_path(&cex.path);
                return Err((
                    classify(&keys, &cex.path, &cex.why),
                    format!(
                        "{which} automaton differs from the grammar's language for --{}: after [{}]: {} (left = reference, right = complgen)",
                        pipe::shell_name(shell),
                        path,
                        cex.why
                    ),
                    J::obj(vec![
                        ("grammar", J::s(text)),
                        ("shell", J::s(pipe::shell_name(shell))),
                        ("automaton", J::s(which)),
                        ("label_path", J::s(path)),
                        ("why", J::s(cex.why)),
                        ("descriptions_compared", J::Bool(strict)),
                        (
                            "reproduce",
                            J::s(format!(
                                "printf '%s' '{}' | complgen --{} - --dfa /dev/stderr -",
                                text.replace('\'', "'\\''"),
                                pipe::shell_name(shell)
                            )),
                        ),
                    ]),
                ));
            }
        }
    }
    // within-word automata are interned by complgen's own DFA equality: two automata it calls
    // equal must be the same automaton (same canonical form), or one silently replaces the other
    let subs = rebuilt_subs(c);
    hash_laws(text, shell, c, &subs)?;
    for i in 0..subs.len() {
        for j in (i + 1)..subs.len() {
            if subs[i].1 == subs[j].1 {
                let mut keys = Keys::new(true);
                let a = keys.impl_lnfa(&subs[i].1, &subs[i].1);
                let b = keys.impl_lnfa(&subs[j].1, &subs[j].1);
                let ca = crate::auto::determinize_l(&a, &mut keys.names).canonical(&keys.names);
                let cb = crate::auto::determinize_l(&b, &mut keys.names).canonical(&keys.names);
                if ca != cb {
                    return Err((
                        "dfa-equality-conflates-different-automata".into(),
                        format!("within-word automata {} and {} compare equal (and are interned as one) although they differ: {} vs {}", subs[i].0, subs[j].0, ca.replace(crate::view::SEP, "\u{b7}"), cb.replace(crate::view::SEP, "\u{b7}")),
                        J::obj(vec![("grammar", J::s(text)), ("shell", J::s(pipe::shell_name(shell))), ("automaton_a", J::s(ca)), ("automaton_b", J::s(cb))]),
                    ));
                }
            }
        }
    }
    Ok(OneResult { stats: total, strict })
}

/// Everything complgen interns goes through a randomly keyed hash container, so `==` and
/// `Hash` must agree (a == b => hash(a) == hash(b)) or interning — and with it the output —
/// depends on the process's hash seed.  Decided with a fixed-key hasher over every pair of
/// regex inputs, pooled within-word regexes and rebuilt within-word automata of one grammar,
/// not by waiting for the coin.
pub fn hash_laws(text: &str, shell: Shell, c: &pipe::Compiled, subs: &[(String, complgen::dfa::DFA)]) -> Result<(), (String, String, J)> {
        let law_err = |ty: &str, a: String, b: String| {
            (
                format!("eq-hash-law-broken-{ty}"),
                format!("two {ty} values compare equal but hash differently, so whether they are interned as one depends on the hash seed: {a} vs {b}"),
                J::obj(vec![("grammar", J::s(text)), ("shell", J::s(pipe::shell_name(shell))), ("a", J::s(a.clone())), ("b", J::s(b.clone()))]),
            )
        };
        let mut inputs: Vec<&complgen::regex::RegexInput> = c.regex.input_from_position.iter().collect();
        let mut ids: Vec<complgen::regex::RegexId> = vec![];
        for inp in &c.regex.input_from_position {
            if let complgen::regex::RegexInput::Subword { subword_regex_id, .. } = inp {
                if !ids.contains(subword_regex_id) {
                    ids.push(*subword_regex_id);
                }
            }
        }
        let n_pool = ids.len();
        for id in &ids {
            inputs.extend(c.pool.verif_lookup(*id).input_from_position.iter());
        }
        for i in 0..inputs.len() {
            for j in (i + 1)..inputs.len() {
                if inputs[i] == inputs[j] && fixed_hash(inputs[i]) != fixed_hash(inputs[j]) {
                    return Err(law_err("RegexInput", format!("{:?}", inputs[i]), format!("{:?}", inputs[j])));
                }
            }
        }
        for i in 0..n_pool {
            for j in (i + 1)..n_pool {
                let (a, b) = (c.pool.verif_lookup(ids[i]), c.pool.verif_lookup(ids[j]));
                if a == b {
                    let why = if fixed_hash(a) != fixed_hash(b) { "eq-hash-law-broken-Regex" } else { "regex-pool-holds-equal-entries" };
                    return Err((
                        why.into(),
                        format!("within-word regexes {i} and {j} of the pool compare equal yet are two entries: interning them as one or two depends on the hash seed"),
                        J::obj(vec![("grammar", J::s(text)), ("shell", J::s(pipe::shell_name(shell)))]),
                    ));
                }
            }
        }
        for i in 0..subs.len() {
            for j in (i + 1)..subs.len() {
                if subs[i].1 == subs[j].1 && fixed_hash(&subs[i].1) != fixed_hash(&subs[j].1) {
                    return Err(law_err("DFA", format!("within-word automaton {}", subs[i].0), format!("within-word automaton {}", subs[j].0)));
                }
            }
        }
    Ok(())
}

/// the within-word automata of a compiled grammar, rebuilt and minimised one by one
pub fn rebuilt_subs(c: &pipe::Compiled) -> Vec<(String, complgen::dfa::DFA)> {
    let mut subs: Vec<(String, complgen::dfa::DFA)> = vec![];
    for inp in &c.regex.input_from_position {
        if let complgen::regex::RegexInput::Subword { subword_regex_id, .. } = inp {
            let name = format!("{subword_regex_id}");
            if subs.iter().any(|(n, _)| *n == name) {
                continue;
            }
            let rx = c.pool.verif_lookup(*subword_regex_id).clone();
            if let Ok(Ok(d)) = pipe::guarded(|| complgen::dfa::DFA::from_regex_raw(rx, &c.pool).map(|d| d.minimize())) {
                subs.push((name, d));
            }
        }
    }
    subs
}

fn fixed_hash<T: std::hash::Hash>(t: &T) -> u64 {
    use std::hash::Hasher;
    #[allow(deprecated)]
    let mut h = std::hash::SipHasher::new_with_keys(0x1234, 0x5678);
    t.hash(&mut h);
    h.finish()
}

/// Violation classes (keys): what the last symbol of the distinguishing path is.
fn classify(keys: &Keys, path: &[u32], why: &str) -> String {
    let last = path.last().map(|s| keys.names.name(*s).to_string()).unwrap_or_default();
    let kind = match last.chars().next() {
        Some('L') => "literal",
        Some('C') => "command",
        Some('A') => "compadd",
        Some('S') => "subword",
        Some('*') => "star",
        _ => "acceptance",
    };
    if why.starts_with("acceptance") {
        "acceptance-differs".to_string()
    } else {
        format!("label-mismatch-{kind}")
    }
}

pub fn work(acc: &mut Acc, g: G, shells: &[Shell]) {
    let text = print_grammar(&g);
    acc.grammars += 1;
    for shell in shells {
        acc.runs += 1;
        match pipe::compile(&text, *shell) {
            Outcome::Err(e) => {
                *acc.rejected.entry(pipe::error_kind(&e).to_string()).or_default() += 1;
            }
            Outcome::Panic(p) => {
                acc.violations.push((
                    "crash".into(),
                    format!("pipeline panicked: {p}"),
                    J::obj(vec![("grammar", J::s(&text)), ("shell", J::s(pipe::shell_name(*shell)))]),
                ));
            }
            Outcome::Ok(c) => {
                acc.accepted += 1;
                match check_one(&g, &text, *shell, &c) {
                    Ok(r) => {
                        acc.states += r.stats.states;
                        acc.transitions += r.stats.transitions;
                        if r.strict {
                            acc.strict += 1
                        } else {
                            acc.lenient += 1
                        }
                        if c.min.subdfas.verif_len() > 0 {
                            acc.with_sub += 1;
                        }
                        let shape = crate::report::fnv(&format!(
                            "{}/{}/{}",
                            c.min.transitions.len(),
                            c.min.accepting_states.len(),
                            c.min.verif_inputs().count()
                        ));
                        acc.shapes.insert(shape);
                        if let Some(s) = acc.samples.as_mut() {
                            s.offer(|| {
                                J::obj(vec![
                                    ("grammar", J::s(text.trim_end())),
                                    ("shell", J::s(pipe::shell_name(*shell))),
                                    ("product_states", J::i(r.stats.states as i64)),
                                    ("descriptions_compared", J::Bool(r.strict)),
                                ])
                            });
                        }
                    }
                    Err(mut v) => {
                        // determinism probe: does the very same input fail again right away?
                        let mut again = vec![];
                        for _ in 0..3 {
                            if let Outcome::Ok(c2) = pipe::compile(&text, *shell) {
                                again.push(check_one(&g, &text, *shell, &c2).is_err());
                            }
                        }
                        let dump = format!("{:?}", c.min.transitions) + " || inputs: " + &c.min.verif_inputs().map(|(_, i)| format!("{i:?}")).collect::<Vec<_>>().join(" ; ");
                        v.2.push("immediate_retries_fail", J::s(format!("{again:?}")));
                        v.2.push("impl_min_dfa", J::s(dump));
                        if again.iter().all(|b| !*b) {
                            v.0 = format!("{}-not-reproducible-in-process", v.0);
                        }
                        acc.violations.push(v)
                    }
                }
            }
        }
    }
}

pub fn merge(accs: Vec<Acc>) -> Acc {
    let mut t = Acc { samples: Some(Samples::new(12)), ..Default::default() };
    for a in accs {
        t.grammars += a.grammars;
        t.runs += a.runs;
        t.accepted += a.accepted;
        for (k, v) in a.rejected {
            *t.rejected.entry(k).or_default() += v;
        }
        t.strict += a.strict;
        t.lenient += a.lenient;
        t.states += a.states;
        t.transitions += a.transitions;
        t.with_sub += a.with_sub;
        t.shapes.extend(a.shapes);
        t.violations.extend(a.violations);
        if let (Some(ts), Some(s)) = (t.samples.as_mut(), a.samples) {
            ts.merge(s);
        }
    }
    t
}

pub fn run(tier: Tier) -> Report {
    let mut rep = Report::new("C02", tier, "model_checking");
    let all: Vec<Shell> = SHELLS.iter().map(|(s, _)| *s).collect();
    let k = tier.pick(6, 7);
    let (km, k1, k2) = tier.pick((3, 3, 2), (4, 3, 3));
    let n = crate::par::nthreads();
    let accs = crate::par::run(
        n,
        |push| {
            for g in crate::corpus::grammars() {
                push(g);
            }
            crate::fam::with_defs(km, k1, k2, &mut |g| push(g));
            crate::fam::twin_words(tier.pick(3, 4), &mut |g| push(g));
            crate::fam::nested_words(&mut |g| push(g));
            crate::fam::word_stars(&mut |g| push(g));
            crate::fam::redundant_twins(&mut |g| push(g));
            crate::fam::deep_shapes(&mut |g| push(g));
            crate::fam::kind_twins(&mut |g| push(g));
            crate::fam::described_twins(&mut |g| push(g));
            crate::fam::fallback_only_words(&mut |g| push(g));
            crate::fam::loop_segments(&["a", "b"], tier.pick(4, 4), &mut |g| push(g));
            for n in 2..=5 {
                crate::fam::def_dags(n, &mut |g| push(g));
            }
            crate::fam::single_call(crate::fam::v0(), k, &mut |g| push(g));
        },
        || Acc { samples: Some(Samples::new(4)), ..Default::default() },
        |acc, g| work(acc, g, &all),
    );
    let t = merge(accs);
    for (key, summary, detail) in &t.violations {
        rep.violation(key, summary.clone(), detail.clone());
    }
    // supplementary seeded random tier of larger trees (can only add violations; not part of
    // the exhaustive counts)
    let n_random = tier.pick(120_000usize, 2_000_000usize);
    let seed = crate::report::seed();
    let raccs = crate::par::run(
        n,
        |push| crate::fam::random_grammars(seed.wrapping_add(17), n_random, &mut |g| push(g)),
        Acc::default,
        |acc, g| work(acc, g, &[Shell::Bash, Shell::Zsh]),
    );
    let r = merge(raccs);
    for (key, summary, detail) in &r.violations {
        rep.violation(key, format!("[random tier, seed {seed}] {summary}"), detail.clone());
    }
    rep.cov(
        "supplementary_random",
        J::obj(vec![
            ("seed", J::i(seed as i64)),
            ("grammars", J::i(n_random as i64)),
            ("accepted_and_compared", J::i(r.accepted as i64)),
            ("product_states", J::i(r.states as i64)),
            ("note", J::s("random trees of 8..23 nodes over {a, b, d, <U>, cmd}, arity <= 4, bash+zsh; not part of states/transitions/exhaustive")),
        ]),
    );
    rep.cov("states", J::i(t.states as i64));
    rep.cov("transitions", J::i(t.transitions as i64));
    rep.cov("traces_validated_against_impl", J::i(0));
    rep.cov("grammars_enumerated", J::i(t.grammars as i64));
    rep.cov("grammar_x_shell_runs", J::i(t.runs as i64));
    rep.cov("accepted_and_compared", J::i(t.accepted as i64));
    rep.cov("compared_with_descriptions", J::i(t.strict as i64));
    rep.cov("compared_descriptions_erased", J::i(t.lenient as i64));
    rep.cov("accepted_with_within_word_automata", J::i(t.with_sub as i64));
    rep.cov("distinct_automaton_shapes", J::i(t.shapes.len() as i64));
    rep.cov("rejected_by_complgen", J::Obj(t.rejected.iter().map(|(k, v)| (k.clone(), J::i(*v as i64))).collect()));
    rep.cov(
        "rule",
        J::s(format!(
            "exhaustive: every tree with <= {k} nodes over leaves {{a, b, ab, a \"d1\", <U>, {{{{{{ c1 }}}}}}}} and operators seq | || [] ... word-juxtaposition descr(\"d2\"), arity 2..3, as `cmd E`; plus `cmd E; <X> = B1; <Y> = B2` (E<= {km} nodes, B1 <= {k1}, B2 <= {k2}, both definition orders); plus all pairs of within-word expressions <= 3 (4) nodes over {{p, q, r}} in two branches and one word-definition used at two fallback levels (interning of within-word automata); plus every definition DAG on 2..5 definitions (every forward-edge subset with all definitions reachable, 3 statement orders); plus the fixed corpus; x 4 shells. Per accepted grammar the product (reference position sets x complgen states) is explored completely for the raw and the minimized automaton; within-word automata are compared through canonical minimal forms. states/transitions = product states/edges summed over all runs."
        )),
    );
    rep.cov("exhaustive", J::Bool(true));
    rep.cov("samples", J::Arr(t.samples.map(|s| s.items).unwrap_or_default()));
    rep.assume("reference semantics of DESIGN.md section 2 (R1-R5), written independently of complgen's pipeline");
    rep.assume("descriptions are compared only where the documentation fixes them (tri-state R3); otherwise erased on both sides");
    rep
}
