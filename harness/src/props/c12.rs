//! C12 — inside a word, overlapping alternatives are told apart correctly.

use crate::ast::{Stmt, E, G};
use crate::binrun::Scratch;
use crate::fam::{call, def};
use crate::json::J;
use crate::report::{Report, Samples, Tier};
use crate::traces::{run_grammar_opts, std_probes, RunError};
use std::collections::{BTreeMap, BTreeSet};

const LATTICE: [&str; 7] = ["a", "ab", "abc", "abcd", "b", "ba", "abd"];

fn has_prefix_pair(vs: &[&str]) -> bool {
    vs.iter().any(|x| vs.iter().any(|y| x != y && y.starts_with(x)))
}

pub fn family(tier: Tier, f: &mut dyn FnMut(G)) {
    let max_size = tier.pick(3, 4);
    let prefixes: Vec<&str> = if tier == Tier::Quick { vec!["--o="] } else { vec!["--o=", "x", ""] };
    let nl = tier.pick(5, LATTICE.len());
    for mask in 1u32..(1 << nl) {
        let vs: Vec<&str> = LATTICE.iter().enumerate().filter(|(i, _)| mask & (1 << i) != 0).map(|(_, v)| *v).collect();
        if vs.len() < 2 || vs.len() > max_size || !has_prefix_pair(&vs) {
            continue;
        }
        let alt = E::Alt(vs.iter().map(|v| E::lit(v)).collect());
        let alt_d = E::Alt(vs.iter().enumerate().map(|(i, v)| if i % 2 == 0 { E::litd(v, &format!("d{i}")) } else { E::lit(v) }).collect());
        for p in &prefixes {
            let with = |inner: E, tail: Option<E>| {
                let mut fs = vec![];
                if !p.is_empty() {
                    fs.push(E::lit(p));
                }
                fs.push(inner);
                if let Some(t) = tail {
                    fs.push(E::lit(","));
                    fs.push(t);
                }
                fs
            };
            let f1 = with(alt.clone(), None);
            if f1.len() >= 2 {
                f(call(E::Seq(vec![E::Word(f1), E::lit("t")])));
            }
            if tier == Tier::Thorough || mask % 3 == 0 {
                let f2 = with(alt.clone(), Some(E::Alt(vec![E::lit("w1"), E::lit("w2")])));
                f(call(E::Seq(vec![E::Word(f2), E::lit("t")])));
            }
            if tier == Tier::Thorough || mask % 8 == 1 {
                let f3 = with(alt_d.clone(), None);
                if f3.len() >= 2 {
                    f(call(E::Seq(vec![E::Word(f3), E::lit("t")])));
                }
                // through a definition
                let f4 = with(E::r("V"), None);
                if f4.len() >= 2 {
                    f(G { stmts: vec![Stmt::Call { name: "cmd".into(), expr: E::Seq(vec![E::Word(f4), E::lit("t")]) }, def("V", alt.clone())] });
                }
            }
        }
    }
}

/// value sets with more than ten literals in one word (two-digit literal ids)
fn big_sets(f: &mut dyn FnMut(G)) {
    let mut vs: Vec<String> = vec!["a".into(), "abc".into(), "abcd".into()];
    for i in 1..=9 {
        vs.push(format!("b{i}"));
    }
    let alt = E::Alt(vs.iter().map(|v| E::lit(v)).collect());
    f(call(E::Seq(vec![E::Word(vec![E::lit("--level="), alt.clone()]), E::Alt(vec![E::lit("foo"), E::lit("bar")])])));
    let mut ws: Vec<String> = (0..8).map(|i| format!("k{i}x")).collect();
    ws.extend(["z".to_string(), "zy".to_string(), "zyx".to_string(), "zyxw".to_string()]);
    let alt2 = E::Alt(ws.iter().rev().map(|v| E::lit(v)).collect());
    f(call(E::Seq(vec![E::Word(vec![E::lit("p:"), alt2, E::lit(";"), E::Alt(vec![E::lit("u"), E::lit("uv")])]), E::lit("t")])));
}

/// values that begin with the text of the word's own head, and a later alternation whose
/// literals extend those of an earlier one (literals of a later point must not stop the scan)
fn head_overlap_sets(f: &mut dyn FnMut(G)) {
    let lit = E::lit;
    let alt = |xs: &[&str]| E::Alt(xs.iter().map(|x| lit(x)).collect());
    f(call(E::Seq(vec![E::Word(vec![lit("a"), alt(&["a", "aa", "aab"])]), lit("foo")])));
    f(call(E::Seq(vec![E::Word(vec![lit("-"), alt(&["-", "-v", "-vv"])]), lit("foo")])));
    f(call(E::Seq(vec![E::Word(vec![alt(&["x", "xy"]), lit("="), alt(&["x", "xyz"])]), lit("foo")])));
    f(call(E::Seq(vec![E::Word(vec![lit("k"), alt(&["k", "kk"]), lit(":"), alt(&["kkk", "k"])]), lit("foo")])));
}

pub fn run(tier: Tier) -> Report {
    let mut rep = Report::new("C12", tier, "model_checking");
    let (defs, pr) = std_probes();
    let mut grammars: Vec<G> = vec![];
    let mut seen = BTreeSet::new();
    family(tier, &mut |g| {
        if seen.insert(crate::ast::print_grammar(&g)) {
            grammars.push(g)
        }
    });
    big_sets(&mut |g| grammars.push(g));
    head_overlap_sets(&mut |g| grammars.push(g));
    let total = grammars.len();
    let scratch = Scratch::new("c12");
    crate::traces::EMPTY_WB_STRIDE.with(|s| s.set(tier.pick(5, 1)));
    let (mut states, mut transitions, mut traces, mut replayed) = (0u64, 0u64, 0u64, 0u64);
    let mut rejected: BTreeMap<String, u64> = BTreeMap::new();
    let mut outcomes: BTreeSet<u64> = BTreeSet::new();
    let mut samples = Samples::new(10);
    for g in &grammars {
        match run_grammar_opts(g, &defs, &pr, 2, 400, false, false, false, &scratch) {
            Ok(run) => {
                replayed += 1;
                states += run.exploration.states;
                transitions += run.exploration.transitions;
                traces += run.validated;
                outcomes.extend(run.outcomes.iter().copied());
                if let Some((t, a)) = run.exploration.traces.iter().zip(run.answers.iter()).find(|(t, a)| a.replies.len() >= 2 && t.cursor.len() > 4) {
                    samples.offer(|| J::obj(vec![("grammar", J::s(run.text.trim_end())), ("words", J::arr_s(t.path.iter().cloned())), ("cursor", J::s(&t.cursor)), ("compreply", J::arr_s(a.replies.iter().cloned()))]));
                }
                for m in run.mismatches {
                    rep.violation(&m.key, m.summary, m.detail);
                }
            }
            Err(RunError::Rejected(k)) => *rejected.entry(k).or_default() += 1,
            Err(RunError::Excluded(_)) => {}
            Err(RunError::Machinery(m)) => {
                eprintln!("machinery failure: {m}");
                std::process::exit(2);
            }
            Err(RunError::Violation(m)) => rep.violation(&m.key, m.summary, m.detail),
        }
    }
    rep.cov("states", J::i(states as i64));
    rep.cov("transitions", J::i(transitions as i64));
    rep.cov("traces_validated_against_impl", J::i(traces as i64));
    rep.cov("grammars_enumerated", J::i(total as i64));
    rep.cov("grammars_replayed_in_bash", J::i(replayed as i64));
    rep.cov("rejected_by_complgen", J::Obj(rejected.iter().map(|(k, v)| (k.clone(), J::i(*v as i64))).collect()));
    rep.cov("distinct_observed_outcomes", J::i(outcomes.len() as i64));
    rep.cov(
        "rule",
        J::s(format!(
            "exhaustive: every value set of size 2..{} from the prefix lattice {:?} that contains a prefix pair, as `cmd P(v1|..|vn) t` and `cmd P(v1|..|vn),(w1|w2) t` with P in {:?}, with and without descriptions and through a definition; two value sets of 12 literals in one word (two-digit literal ids); model BFS of depth 2 over the per-grammar alphabet (every value, every item-boundary prefix, foreign words), at every state every prefix of every value (+1 character) as cursor word, both COMP_WORDBREAKS modes where the prefix holds a break character; replayed in real bash; oracle R6/R7 with all tokenisations (a value typed completely may or may not be offered again).",
            tier.pick(3, 4),
            &LATTICE[..tier.pick(5, LATTICE.len())],
            if tier == Tier::Quick { vec!["--o="] } else { vec!["--o=", "x", ""] }
        )),
    );
    rep.cov("samples", J::Arr(samples.items));
    rep.assume("as C01");
    rep
}
