//! debug helper: run the C02/C03 per-grammar checks on one grammar text file
use crate::pipe::{self, Outcome, Shell};
pub fn run(path: &str) {
    let text = std::fs::read_to_string(path).unwrap();
    let g = match complgen::parse::Grammar::parse(&text) {
        Ok(g) => crate::ast::from_grammar(&g),
        Err(e) => {
            println!("parse error {e:?}");
            return;
        }
    };
    let shell = match std::env::var("CGMC_SHELL").as_deref() {
        Ok("zsh") => Shell::Zsh,
        Ok("fish") => Shell::Fish,
        Ok("pwsh") => Shell::Pwsh,
        _ => Shell::Bash,
    };
    match pipe::compile(&text, shell) {
        Outcome::Ok(c) => {
            match crate::props::c02::check_one(&g, &text, shell, &c) {
                Ok(r) => println!("C02 ok, product states {}", r.stats.states),
                Err((k, s, _)) => println!("C02 VIOLATION {k}: {s}"),
            }
            let mut acc = crate::props::c03::Acc::default();
            crate::props::c03::work(&mut acc, g.clone(), Shell::Bash);
            for v in acc.violations() {
                println!("C03 VIOLATION {}: {}", v.0, v.1);
            }
            println!("C03 done");
        }
        Outcome::Err(e) => println!("rejected: {}", pipe::error_kind(&e)),
        Outcome::Panic(p) => println!("panic {p}"),
    }
}

/// debug helper: run C02's check over the thorough definition family, single-threaded
pub fn run_defs() {
    let mut n = 0u64;
    let mut bad = 0u64;
    crate::fam::with_defs(4, 3, 3, &mut |g| {
        n += 1;
        let text = crate::ast::print_grammar(&g);
        for (shell, sn) in crate::pipe::SHELLS {
            if let Outcome::Ok(c) = pipe::compile(&text, shell) {
                if let Err((k, s, _)) = crate::props::c02::check_one(&g, &text, shell, &c) {
                    bad += 1;
                    if bad < 10 {
                        println!("{sn}: {k}: {} :: {}", text.replace('\n', " "), &s[..s.len().min(200)]);
                    }
                }
            }
        }
    });
    println!("{n} grammars, {bad} failures");
}

/// debug helper: the same family through the parallel runner (all four shells)
pub fn run_defs_par() {
    let all: Vec<Shell> = crate::pipe::SHELLS.iter().map(|(s, _)| *s).collect();
    let accs = crate::par::run(
        crate::par::nthreads(),
        |push| crate::fam::with_defs(4, 3, 3, &mut |g| push(g)),
        crate::props::c02::Acc::default,
        |acc, g| crate::props::c02::work(acc, g, &all),
    );
    let t = crate::props::c02::merge(accs);
    println!("{} grammars, {} violations", t.grammars, t.violations.len());
    for v in t.violations.iter().take(5) {
        println!("{} :: {} :: {}", v.0, &v.1[..v.1.len().min(300)], v.2.to_string_pretty());
    }
}
