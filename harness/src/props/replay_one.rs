//! debug helper: run the C02/C03 per-grammar checks on one grammar text file
use crate::pipe::{self, Outcome, Shell};
pub fn run(path: &str) {
    let text = std::fs::read_to_string(path).unwrap();
    let g = match complgen::parse::Grammar::parse(&text) {
        Ok(g) => crate::ast::from_grammar(&g),
        Err(e) => {
            println!("parse error {e:?}");
            return;
        }
    };
    match pipe::compile(&text, Shell::Bash) {
        Outcome::Ok(c) => {
            match crate::props::c02::check_one(&g, &text, Shell::Bash, &c) {
                Ok(r) => println!("C02 ok, product states {}", r.stats.states),
                Err((k, s, _)) => println!("C02 VIOLATION {k}: {s}"),
            }
            let mut acc = crate::props::c03::Acc::default();
            crate::props::c03::work(&mut acc, g.clone(), Shell::Bash);
            for v in acc.violations() {
                println!("C03 VIOLATION {}: {}", v.0, v.1);
            }
            println!("C03 done");
        }
        Outcome::Err(e) => println!("rejected: {}", pipe::error_kind(&e)),
        Outcome::Panic(p) => println!("panic {p}"),
    }
}
