//! C01 — bash completions produced by the emitted script equal the grammar's meaning.
//! Model checking (BFS over reference model states) + trace conformance in a real bash.

use crate::ast::{Stmt, E, G};
use crate::bashrun::probe_cmd;
use crate::binrun::Scratch;
use crate::enumr::{Enumerator, Vocab};
use crate::fam::{call, def};
use crate::json::J;
use crate::report::{Report, Samples, Tier};
use crate::traces::{run_grammar, std_probes, RunError};
use std::collections::{BTreeMap, BTreeSet};

pub fn p1() -> E {
    E::cmd(&probe_cmd("1"))
}
pub fn p2() -> E {
    E::cmd(&probe_cmd("2"))
}

/// the enumerated Level-B family (DESIGN.md section 3)
pub fn family(tier: Tier, f: &mut dyn FnMut(&'static str, G)) {
    let lit = E::lit;
    // T: every tree <= k nodes over a colliding vocabulary
    let vt = Vocab { descrs: vec![], ..Vocab::basic(vec![lit("a"), lit("ab"), E::r("U"), p1()]) };
    let en = Enumerator::new(vt, 3);
    en.for_each_upto(tier.pick(2, 4), &mut |e| f("T", call(e.clone())));
    // W: within-word expressions, alone and followed by a word
    let vw = Vocab { descrs: vec![], word: false, ..Vocab::basic(vec![lit("a"), lit("b"), lit("x="), E::r("U"), p2()]) };
    let enw = Enumerator::new(vw, 3);
    for n in 1..=tier.pick(2, 4) {
        enw.for_each(n, true, &mut |w| {
            let word = E::Word(vec![lit("--o="), w.clone()]);
            f("W", call(word.clone()));
            f("W", call(E::Seq(vec![word, lit("t")])));
        });
    }
    // F: fallbacks
    let mut small: Vec<E> = vec![lit("a"), E::r("U"), p1(), E::Word(vec![lit("x="), E::Alt(vec![lit("c"), lit("d")])])];
    if tier == Tier::Thorough {
        let vf = Vocab { descrs: vec![], word: false, fb: false, ..Vocab::basic(vec![lit("a"), lit("b"), E::r("U"), p1()]) };
        let enf = Enumerator::new(vf, 2);
        small.clear();
        enf.for_each_upto(2, &mut |e| small.push(e.clone()));
        small.push(E::Word(vec![lit("x="), E::Alt(vec![lit("c"), lit("d")])]));
        small.push(E::Seq(vec![lit("a"), lit("c")]));
    }
    for x in &small {
        for y in &small {
            f("F", call(E::Fb(vec![x.clone(), y.clone()])));
            if tier == Tier::Thorough || x != y {
                f("F", call(E::Seq(vec![E::Fb(vec![x.clone(), y.clone()]), lit("t")])));
            }
        }
    }
    for x in small.iter().take(tier.pick(2, 3)) {
        for y in small.iter().take(tier.pick(2, 3)) {
            for z in small.iter().take(tier.pick(2, 3)) {
                f("F", call(E::Fb(vec![x.clone(), y.clone(), z.clone()])));
            }
        }
    }
    // P: probes at every position of small trees
    let vp = Vocab { descrs: vec![], ..Vocab::basic(vec![lit("a"), p1(), p2()]) };
    let enp = Enumerator::new(vp, 3);
    enp.for_each_upto(tier.pick(2, 3), &mut |e| {
        if e.any(|x| matches!(x, E::Cmd(_))) {
            f("P", call(E::Seq(vec![e.clone(), lit("t")])));
        }
    });
    // N: definition chains around small bodies
    for body in [lit("a"), E::Alt(vec![lit("a"), lit("b")]), E::Seq(vec![lit("a"), E::Opt(Box::new(lit("b")))]), p1(), E::Word(vec![lit("k="), E::Alt(vec![lit("v"), lit("w")])]), E::Fb(vec![lit("a"), lit("b")])] {
        f("N", G { stmts: vec![Stmt::Call { name: "cmd".into(), expr: E::Seq(vec![E::r("X"), lit("t")]) }, def("X", body.clone())] });
        f("N", G { stmts: vec![def("Y", body.clone()), Stmt::Call { name: "cmd".into(), expr: E::r("X") }, def("X", E::Alt(vec![lit("o"), E::r("Y")]))] });
        f("N", G { stmts: vec![Stmt::Call { name: "cmd".into(), expr: E::Word(vec![lit("--p="), E::r("X")]) }, def("X", E::Alt(vec![lit("o"), lit("q")]))] });
        f("N", G { stmts: vec![Stmt::Call { name: "cmd".into(), expr: lit("s") }, Stmt::Call { name: "cmd".into(), expr: E::Seq(vec![lit("u"), E::r("X")]) }, def("X", body.clone())] });
    }
    // corpus pieces with a fixed meaning in bash
    f("C", call(E::Word(vec![lit("--color="), E::Alt(vec![lit("always"), lit("never"), lit("auto")])])));
    f("C", call(E::Seq(vec![E::Word(vec![lit("--color="), E::Alt(vec![lit("always"), lit("never")])]), lit("foo")])));
    f("C", call(E::Seq(vec![p1(), lit("bar")])));
    // `||` inside a word with a nested juxtaposition in one branch
    f("C", call(E::Seq(vec![E::Word(vec![lit("--mode="), E::Fb(vec![lit("fast"), E::Word(vec![lit("slow"), E::Alt(vec![lit("er"), lit("est")])])])]), lit("t")])));
    f("C", G { stmts: vec![Stmt::Call { name: "cmd".into(), expr: E::Word(vec![lit("--mode="), E::r("M")]) }, def("M", E::Fb(vec![lit("fast"), E::Word(vec![lit("slow"), E::Alt(vec![lit("er"), lit("est")])])]))] });
    // prefixes holding the same word-break character more than once / several different ones
    f("C", call(E::Seq(vec![E::Word(vec![lit("k=v="), E::Alt(vec![lit("1"), lit("2")])]), lit("t")])));
    f("C", call(E::Word(vec![lit("h:p:"), E::Alt(vec![lit("x"), lit("y@z")])])));
    f("C", call(E::Alt(vec![lit("a=b:c"), lit("a=b:d"), lit("a:e")])));
    f("C", call(E::Seq(vec![E::Many(Box::new(E::Alt(vec![lit("a"), lit("b")]))), E::Opt(Box::new(lit("c")))])));
}

pub fn run(tier: Tier) -> Report {
    let mut rep = Report::new("C01", tier, "model_checking");
    let (defs, probes) = std_probes();
    let depth = tier.pick(2, 4);
    let max_traces = tier.pick(400, 2000);
    let lean = tier == Tier::Quick;
    let mut grammars: Vec<(&'static str, G)> = vec![];
    let mut seen: BTreeSet<String> = BTreeSet::new();
    family(tier, &mut |fam, g| {
        let t = crate::ast::print_grammar(&g);
        if seen.insert(t) {
            grammars.push((fam, g));
        }
    });
    let total = grammars.len();
    let defs_ref = &defs;
    let probes_ref = &probes;
    struct St {
        scratch: Scratch,
        states: u64,
        transitions: u64,
        traces: u64,
        accepted: u64,
        rejected: BTreeMap<String, u64>,
        excluded: BTreeMap<String, u64>,
        ambiguous: u64,
        outcomes: BTreeSet<u64>,
        viol: Vec<(String, String, J)>,
        samples: Samples,
        per_family: BTreeMap<&'static str, u64>,
        machinery: Vec<String>,
    }
    let results = crate::par::run(
        2,
        |push| {
            for g in grammars {
                push(g);
            }
        },
        || St {
            scratch: Scratch::new("c01"),
            states: 0,
            transitions: 0,
            traces: 0,
            accepted: 0,
            rejected: BTreeMap::new(),
            excluded: BTreeMap::new(),
            ambiguous: 0,
            outcomes: BTreeSet::new(),
            viol: vec![],
            samples: Samples::new(4),
            per_family: BTreeMap::new(),
            machinery: vec![],
        },
        |st, (fam, g): (&'static str, G)| match run_grammar(&g, defs_ref, probes_ref, depth, max_traces, true, lean, &st.scratch) {
            Ok(run) => {
                st.accepted += 1;
                *st.per_family.entry(fam).or_default() += 1;
                st.states += run.exploration.states;
                st.transitions += run.exploration.transitions;
                st.traces += run.validated;
                st.ambiguous += run.exploration.ambiguous_skipped;
                st.outcomes.extend(run.outcomes.iter().copied());
                for m in run.mismatches {
                    st.viol.push((m.key, m.summary, m.detail));
                }
                if let Some((t, a)) = run.exploration.traces.iter().zip(run.answers.iter()).find(|(t, a)| !t.path.is_empty() && !a.replies.is_empty()) {
                    let text = run.text.clone();
                    st.samples.offer(|| J::obj(vec![("grammar", J::s(text.trim_end())), ("words", J::arr_s(t.path.iter().cloned())), ("cursor", J::s(&t.cursor)), ("compreply", J::arr_s(a.replies.iter().cloned()))]));
                }
            }
            Err(RunError::Rejected(k)) => *st.rejected.entry(k).or_default() += 1,
            Err(RunError::Excluded(why)) => {
                let k = why.split('(').last().unwrap_or("").trim_end_matches(')').to_string();
                *st.excluded.entry(if k.is_empty() { why } else { k }).or_default() += 1
            }
            Err(RunError::Machinery(m)) => st.machinery.push(m),
            Err(RunError::Violation(m)) => st.viol.push((m.key, m.summary, m.detail)),
        },
    );
    let mut states = 0;
    let mut transitions = 0;
    let mut traces = 0;
    let mut accepted = 0;
    let mut ambiguous = 0;
    let mut rejected: BTreeMap<String, u64> = BTreeMap::new();
    let mut excluded: BTreeMap<String, u64> = BTreeMap::new();
    let mut outcomes: BTreeSet<u64> = BTreeSet::new();
    let mut per_family: BTreeMap<&'static str, u64> = BTreeMap::new();
    let mut samples = Samples::new(12);
    let mut machinery = vec![];
    for st in results {
        states += st.states;
        transitions += st.transitions;
        traces += st.traces;
        accepted += st.accepted;
        ambiguous += st.ambiguous;
        for (k, v) in st.rejected {
            *rejected.entry(k).or_default() += v;
        }
        for (k, v) in st.excluded {
            *excluded.entry(k).or_default() += v;
        }
        for (k, v) in st.per_family {
            *per_family.entry(k).or_default() += v;
        }
        outcomes.extend(st.outcomes);
        for v in st.viol {
            rep.violation(&v.0, v.1, v.2);
        }
        samples.merge(st.samples);
        machinery.extend(st.machinery);
    }
    if !machinery.is_empty() {
        eprintln!("machinery failure: {}", machinery[0]);
        std::process::exit(2);
    }
    rep.cov("states", J::i(states as i64));
    rep.cov("transitions", J::i(transitions as i64));
    rep.cov("traces_validated_against_impl", J::i(traces as i64));
    rep.cov("grammars_enumerated", J::i(total as i64));
    rep.cov("grammars_replayed_in_bash", J::i(accepted as i64));
    rep.cov("replayed_per_family", J::Obj(per_family.iter().map(|(k, v)| (k.to_string(), J::i(*v as i64))).collect()));
    rep.cov("rejected_by_complgen", J::Obj(rejected.iter().map(|(k, v)| (k.clone(), J::i(*v as i64))).collect()));
    rep.cov("outside_the_property_region", J::Obj(excluded.iter().map(|(k, v)| (k.clone(), J::i(*v as i64))).collect()));
    rep.cov("transitions_without_verdict_two_kinds_read_the_word", J::i(ambiguous as i64));
    rep.cov("distinct_observed_outcomes", J::i(outcomes.len() as i64));
    rep.cov("word_depth", J::i(depth as i64));
    rep.cov(
        "rule",
        J::s(format!(
            "model = reference automaton driven by R6/R7; states = position sets reached by BFS appending one word of the per-grammar alphabet (every literal, every complete within-word value of <= 3 items, every item-boundary proper prefix of such a value, every probe candidate, a foreign word, a proper prefix of a literal), depth <= {depth}, deduplicated on the position set; the not-matched state explored one step. At every state the cursor word ranges over every prefix of every vocabulary item, each item plus one character, and a foreign word; COMP_WORDBREAKS default, and empty whenever the cursor word holds a break character. Every trace is replayed in one real bash per grammar (script sourced once, _get_comp_words_by_ref stub, bind stub). Families: T (all trees <= {} nodes over {{a, ab, <U>, probe}}), W (all within-word expressions <= {} nodes after `--o=`, alone and followed by a word), F (`||` of all pairs of small branches, alone and followed by a word, triples), P (probes at every position of trees <= 3 nodes), N (definition chains), C (README shapes). Per-grammar trace cap {max_traces}.",
            tier.pick(3, 4),
            tier.pick(3, 4)
        )),
    );
    rep.cov("samples", J::Arr(samples.items));
    rep.assume("GNU bash as installed; _get_comp_words_by_ref stubbed as the property's observation point prescribes; `bind` stubbed (completion-ignore-case off)");
    rep.assume("probe commands print fixed lines; a candidate equal to the fully typed within-word text may be present or absent (R7 tolerance)");
    rep
}
