//! Minimal JSON value + writer (no external crates available for the harness).

#[derive(Clone, Debug)]
pub enum J {
    Null,
    Bool(bool),
    Int(i64),
    Num(f64),
    Str(String),
    Arr(Vec<J>),
    Obj(Vec<(String, J)>),
}

impl J {
    pub fn s(x: impl Into<String>) -> J {
        J::Str(x.into())
    }
    pub fn i(x: impl TryInto<i64>) -> J {
        J::Int(x.try_into().ok().unwrap_or(i64::MAX))
    }
    pub fn obj(v: Vec<(&str, J)>) -> J {
        J::Obj(v.into_iter().map(|(k, v)| (k.to_string(), v)).collect())
    }
    pub fn arr_s<I: IntoIterator<Item = String>>(v: I) -> J {
        J::Arr(v.into_iter().map(J::Str).collect())
    }
    pub fn push(&mut self, k: &str, v: J) {
        if let J::Obj(o) = self {
            o.push((k.to_string(), v));
        }
    }
    pub fn write(&self, out: &mut String, indent: usize) {
        let pad = " ".repeat(indent);
        match self {
            J::Null => out.push_str("null"),
            J::Bool(b) => out.push_str(if *b { "true" } else { "false" }),
            J::Int(i) => out.push_str(&i.to_string()),
            J::Num(f) => {
                if f.is_finite() {
                    out.push_str(&format!("{:.3}", f))
                } else {
                    out.push_str("0")
                }
            }
            J::Str(s) => write_str(out, s),
            J::Arr(a) => {
                if a.is_empty() {
                    out.push_str("[]");
                    return;
                }
                out.push_str("[\n");
                for (i, x) in a.iter().enumerate() {
                    out.push_str(&pad);
                    out.push_str("  ");
                    x.write(out, indent + 2);
                    if i + 1 < a.len() {
                        out.push(',');
                    }
                    out.push('\n');
                }
                out.push_str(&pad);
                out.push(']');
            }
            J::Obj(o) => {
                if o.is_empty() {
                    out.push_str("{}");
                    return;
                }
                out.push_str("{\n");
                for (i, (k, v)) in o.iter().enumerate() {
                    out.push_str(&pad);
                    out.push_str("  ");
                    write_str(out, k);
                    out.push_str(": ");
                    v.write(out, indent + 2);
                    if i + 1 < o.len() {
                        out.push(',');
                    }
                    out.push('\n');
                }
                out.push_str(&pad);
                out.push('}');
            }
        }
    }
    pub fn to_string_pretty(&self) -> String {
        let mut s = String::new();
        self.write(&mut s, 0);
        s.push('\n');
        s
    }
}

fn write_str(out: &mut String, s: &str) {
    out.push('"');
    for c in s.chars() {
        match c {
            '"' => out.push_str("\\\""),
            '\\' => out.push_str("\\\\"),
            '\n' => out.push_str("\\n"),
            '\r' => out.push_str("\\r"),
            '\t' => out.push_str("\\t"),
            c if (c as u32) < 0x20 || c == '\u{7f}' => out.push_str(&format!("\\u{:04x}", c as u32)),
            c => out.push(c),
        }
    }
    out.push('"');
}
