//! Batched driver of a real `bash`: one process sources the emitted script once and answers a
//! whole file of completion queries (COMP_WORDS / COMP_CWORD / COMP_WORDBREAKS -> return code,
//! COMPREPLY, probe log).

use crate::binrun::Scratch;
use std::process::{Command, Stdio};

#[derive(Clone, Debug)]
pub struct Query {
    /// words after the command name; the last one is the word under the cursor
    pub words: Vec<String>,
    /// true: bash's default COMP_WORDBREAKS, false: empty
    pub default_wordbreaks: bool,
}

#[derive(Clone, Debug, Default)]
pub struct Answer {
    pub rc: i32,
    pub replies: Vec<String>,
    /// probe invocations: "id|nargs|arg1|arg2"
    pub log: Vec<String>,
}

/// one probe: id and the lines it prints
#[derive(Clone, Debug)]
pub struct ProbeDef {
    pub id: String,
    pub lines: Vec<String>,
}

pub fn probe_cmd(id: &str) -> String {
    format!("__p {id} \"$@\"")
}

const DRIVER: &str = r#"
_get_comp_words_by_ref () { words=("${COMP_WORDS[@]}"); cword=$COMP_CWORD; }
bind () { if [[ $1 == -v && -n $CG_IGNORE_CASE ]]; then echo "set completion-ignore-case on"; fi; }
__p () {
    local id=$1; shift
    printf '%s|%s|%s|%s\n' "$id" "$#" "$1" "$2" >> "$PROBE_LOG"
    case $id in
@@PROBES@@
    esac
}
source "$SCRIPT" || { echo "SOURCE-FAILED"; exit 3; }
CANARY_VAR=untouched
exec 3< "$QUERIES"
while IFS= read -r -u 3 header; do
    set -- $header
    wb=$2; n=$3
    COMP_WORDS=("$CMDNAME")
    for ((k = 0; k < n; k++)); do
        IFS= read -r -u 3 w
        COMP_WORDS+=("$w")
    done
    COMP_CWORD=$n
    if [[ $wb = d ]]; then COMP_WORDBREAKS=$' \t\n"\'@><=;|&(:'; else COMP_WORDBREAKS=''; fi
    COMP_LINE="${COMP_WORDS[*]}"
    COMP_POINT=${#COMP_LINE}
    COMPREPLY=()
    : > "$PROBE_LOG"
    "$FUNC" "$CMDNAME" "${COMP_WORDS[$COMP_CWORD]}" "${COMP_WORDS[$((COMP_CWORD-1))]}" 2>>"$STDERR_LOG"
    rc=$?
    printf 'R %s %s\n' "$rc" "${#COMPREPLY[@]}"
    for r in "${COMPREPLY[@]}"; do printf '%s\n' "$r"; done
    mapfile -t __loglines < "$PROBE_LOG"
    printf 'L %s\n' "${#__loglines[@]}"
    for r in "${__loglines[@]}"; do printf '%s\n' "$r"; done
done
printf 'E %s %s\n' "$CANARY_VAR" "$(cat canary 2>/dev/null)"
"#;

thread_local! {
    /// answer `bind -v` with `completion-ignore-case on` (readline's case-insensitive completion)
    pub static IGNORE_CASE: std::cell::Cell<bool> = const { std::cell::Cell::new(false) };
}

pub struct Batch {
    pub answers: Vec<Answer>,
    pub canary_ok: bool,
    pub stderr: String,
    pub failed: Option<String>,
    /// the script never returned from a completion call (killed at the horizon)
    pub hung: bool,
}

/// Run all queries against `script` in one bash.  `cmd` is the completed command's name.
pub fn run_batch(script: &[u8], cmd: &str, probes: &[ProbeDef], queries: &[Query], scratch: &Scratch) -> Batch {
    let dir = scratch.path("bashcwd");
    let _ = std::fs::remove_dir_all(&dir);
    std::fs::create_dir_all(&dir).unwrap();
    std::fs::write(dir.join("canary"), "canary-intact").unwrap();
    let script_p = scratch.path("script.bash");
    std::fs::write(&script_p, script).unwrap();
    let mut q = String::new();
    for qu in queries {
        q.push_str(&format!("Q {} {}\n", if qu.default_wordbreaks { "d" } else { "e" }, qu.words.len()));
        for w in &qu.words {
            q.push_str(w);
            q.push('\n');
        }
    }
    let queries_p = scratch.path("queries");
    std::fs::write(&queries_p, q).unwrap();
    let mut cases = String::new();
    for p in probes {
        cases.push_str(&format!("        {})\n", p.id));
        for l in &p.lines {
            cases.push_str(&format!("            printf '%s\\n' {}\n", sh_single_quote(l)));
        }
        cases.push_str("            ;;\n");
    }
    let driver = DRIVER.replace("@@PROBES@@", &cases);
    let driver_p = scratch.path("driver.bash");
    std::fs::write(&driver_p, driver).unwrap();
    let log_p = scratch.path("probe.log");
    let err_p = scratch.path("stderr.log");
    let _ = std::fs::remove_file(&err_p);
    let out_p = scratch.path("driver.stdout");
    let err2_p = scratch.path("driver.stderr");
    let spawn = Command::new("bash")
        .arg("--noprofile")
        .arg("--norc")
        .arg(&driver_p)
        .env_clear()
        .env("PATH", "/usr/bin:/bin")
        .env("HOME", &dir)
        .env("LC_ALL", "C")
        .env("SCRIPT", &script_p)
        .env("QUERIES", &queries_p)
        .env("PROBE_LOG", &log_p)
        .env("STDERR_LOG", &err_p)
        .env("CMDNAME", cmd)
        .env("FUNC", format!("_{cmd}"))
        .env("CG_IGNORE_CASE", if IGNORE_CASE.with(|c| c.get()) { "1" } else { "" })
        .current_dir(&dir)
        .stdin(Stdio::null())
        .stdout(std::fs::File::create(&out_p).unwrap())
        .stderr(std::fs::File::create(&err2_p).unwrap())
        .spawn();
    let mut child = match spawn {
        Ok(c) => c,
        Err(e) => {
            eprintln!("machinery: cannot run bash: {e}");
            std::process::exit(2);
        }
    };
    // generous horizon: a completion call takes ~20 ms; a script that loops forever must not
    // hang the check
    let horizon = std::time::Duration::from_secs(120 + queries.len() as u64);
    let start = std::time::Instant::now();
    let mut hung = false;
    let status = loop {
        match child.try_wait() {
            Ok(Some(st)) => break Some(st),
            Ok(None) => {
                if start.elapsed() > horizon {
                    let _ = child.kill();
                    let _ = child.wait();
                    hung = true;
                    break None;
                }
                std::thread::sleep(std::time::Duration::from_millis(5));
            }
            Err(_) => break None,
        }
    };
    struct Out {
        stdout: Vec<u8>,
        stderr: Vec<u8>,
        status: Option<std::process::ExitStatus>,
    }
    let out = Out { stdout: std::fs::read(&out_p).unwrap_or_default(), stderr: std::fs::read(&err2_p).unwrap_or_default(), status };
    let text = String::from_utf8_lossy(&out.stdout).to_string();
    let mut stderr = String::from_utf8_lossy(&out.stderr).to_string();
    if let Ok(s) = std::fs::read_to_string(&err_p) {
        stderr.push_str(&s);
    }
    let mut answers = vec![];
    let mut canary_ok = false;
    let mut failed = None;
    let lines: Vec<&str> = text.split('\n').collect();
    let mut i = 0;
    while i < lines.len() {
        let l = lines[i];
        if let Some(rest) = l.strip_prefix("R ") {
            let mut it = rest.split(' ');
            let rc: i32 = it.next().and_then(|x| x.parse().ok()).unwrap_or(-1);
            let n: usize = it.next().and_then(|x| x.parse().ok()).unwrap_or(0);
            let mut a = Answer { rc, ..Default::default() };
            for k in 0..n {
                a.replies.push(lines.get(i + 1 + k).copied().unwrap_or("").to_string());
            }
            i += 1 + n;
            if let Some(rest) = lines.get(i).and_then(|l| l.strip_prefix("L ")) {
                let m: usize = rest.trim().parse().unwrap_or(0);
                for k in 0..m {
                    a.log.push(lines.get(i + 1 + k).copied().unwrap_or("").to_string());
                }
                i += 1 + m;
            }
            answers.push(a);
            continue;
        }
        if let Some(rest) = l.strip_prefix("E ") {
            canary_ok = rest == "untouched canary-intact";
        }
        if l == "SOURCE-FAILED" {
            failed = Some("sourcing the script failed".to_string());
        }
        i += 1;
    }
    if answers.len() != queries.len() && failed.is_none() {
        failed = Some(format!("{} answers for {} queries (bash status {:?})", answers.len(), queries.len(), out.status.and_then(|s| s.code())));
    }
    if hung {
        failed = Some(format!("bash did not finish within {} s; it was answering query {} of {}", horizon.as_secs(), answers.len() + 1, queries.len()));
    }
    let _ = std::fs::remove_dir_all(&dir);
    Batch { answers, canary_ok, stderr, failed, hung }
}

pub fn sh_single_quote(s: &str) -> String {
    format!("'{}'", s.replace('\'', "'\\''"))
}

/// `bash -n` on a script
pub fn syntax_ok(script: &[u8], scratch: &Scratch) -> Result<(), String> {
    let p = scratch.path("syntax.bash");
    std::fs::write(&p, script).unwrap();
    let out = Command::new("bash").arg("-n").arg(&p).env_clear().env("PATH", "/usr/bin:/bin").env("LC_ALL", "C").output();
    match out {
        Ok(o) if o.status.success() => Ok(()),
        Ok(o) => Err(String::from_utf8_lossy(&o.stderr).to_string()),
        Err(e) => {
            eprintln!("machinery: cannot run bash: {e}");
            std::process::exit(2);
        }
    }
}
