//! R8 — reference classification of grammar mistakes and warnings, computed from the AST by
//! plain graph algorithms and from the reference automaton (DESIGN.md section 2, R8).

use crate::ast::{Stmt, E, G};
use crate::pipe::Shell;
use crate::refsem::{self, Allowed, RLabel, RefAuto};
use crate::view::Keys;
use std::collections::{BTreeMap, BTreeSet, HashSet, VecDeque};

#[derive(Clone, Copy, Debug, PartialEq, Eq)]
pub enum Tri {
    No,
    Yes,
    /// statement and code can be read either way: neither verdict is demanded
    Unclear,
}

pub const KINDS: [&str; 11] = [
    "MissingCallVariants",
    "VaryingCommandNames",
    "InvalidCommandName",
    "UnknownShell",
    "NonCommandSpecialization",
    "DuplicateNonterminalDefinition",
    "NonterminalDefinitionsCycle",
    "SubwordSpaces",
    "UnboundedMatchable",
    "ConflictingDescriptions",
    "AmbiguousDFA",
];

#[derive(Clone, Debug, Default)]
pub struct Classes {
    pub map: BTreeMap<&'static str, Tri>,
}

impl Classes {
    fn set(&mut self, k: &'static str, t: Tri) {
        let cur = self.map.get(k).copied().unwrap_or(Tri::No);
        let new = match (cur, t) {
            (Tri::Yes, _) | (_, Tri::Yes) => Tri::Yes,
            (Tri::Unclear, _) | (_, Tri::Unclear) => Tri::Unclear,
            _ => Tri::No,
        };
        self.map.insert(k, new);
    }
    pub fn yes(&self) -> Vec<&'static str> {
        self.map.iter().filter(|(_, t)| **t == Tri::Yes).map(|(k, _)| *k).collect()
    }
    pub fn unclear(&self) -> Vec<&'static str> {
        self.map.iter().filter(|(_, t)| **t == Tri::Unclear).map(|(k, _)| *k).collect()
    }
    pub fn admits(&self, kind: &str) -> bool {
        self.map.get(kind).map(|t| *t != Tri::No).unwrap_or(false)
    }
}

const SHELL_NAMES: [&str; 4] = ["bash", "fish", "zsh", "pwsh"];

struct Ctx<'a> {
    target: &'static str,
    plain: BTreeMap<String, &'a E>,
    spec_target: BTreeSet<String>,
}

impl<'a> Ctx<'a> {
    /// does `<name>` stand for its plain definition when compiling for the target?
    fn resolves_plain(&self, name: &str) -> Option<&'a E> {
        if self.spec_target.contains(name) {
            return None;
        }
        self.plain.get(name).copied()
    }
}

fn refs_of(e: &E, out: &mut Vec<String>) {
    e.visit(&mut |x| {
        if let E::Ref(n) = x {
            out.push(n.clone())
        }
    });
}

/// tail literal through Seq/Word nesting only
fn tail_lit(e: &E) -> bool {
    match e {
        E::Lit(..) => true,
        E::Seq(c) | E::Word(c) => c.last().map(tail_lit).unwrap_or(false),
        E::Descr(c, _) => tail_lit(c),
        _ => false,
    }
}
fn head_lit(e: &E) -> bool {
    match e {
        E::Lit(..) => true,
        E::Seq(c) | E::Word(c) => c.first().map(head_lit).unwrap_or(false),
        E::Descr(c, _) => head_lit(c),
        _ => false,
    }
}
/// the same, also looking through references to plain definitions
fn tail_lit_r(e: &E, cx: &Ctx, depth: usize) -> bool {
    if depth > 12 {
        return true;
    }
    match e {
        E::Lit(..) => true,
        E::Seq(c) | E::Word(c) => c.last().map(|x| tail_lit_r(x, cx, depth + 1)).unwrap_or(false),
        E::Descr(c, _) => tail_lit_r(c, cx, depth + 1),
        E::Ref(n) => cx.resolves_plain(n).map(|b| tail_lit_r(b, cx, depth + 1)).unwrap_or(false),
        _ => false,
    }
}
fn head_lit_r(e: &E, cx: &Ctx, depth: usize) -> bool {
    if depth > 12 {
        return true;
    }
    match e {
        E::Lit(..) => true,
        E::Seq(c) | E::Word(c) => c.first().map(|x| head_lit_r(x, cx, depth + 1)).unwrap_or(false),
        E::Descr(c, _) => head_lit_r(c, cx, depth + 1),
        E::Ref(n) => cx.resolves_plain(n).map(|b| head_lit_r(b, cx, depth + 1)).unwrap_or(false),
        _ => false,
    }
}

/// could the expression end / start with a literal (through any operator and definitions)?
fn may_end_lit(e: &E, cx: &Ctx, depth: usize) -> bool {
    if depth > 12 {
        return true;
    }
    match e {
        E::Lit(..) => true,
        E::Cmd(_) => false,
        E::Ref(n) => cx.resolves_plain(n).map(|b| may_end_lit(b, cx, depth + 1)).unwrap_or(false),
        E::Seq(c) | E::Word(c) => {
            // last non-nullable suffix: conservative = any trailing child may be the end
            let mut i = c.len();
            while i > 0 {
                i -= 1;
                if may_end_lit(&c[i], cx, depth + 1) {
                    return true;
                }
                if !nullable(&c[i], cx, depth + 1) {
                    return false;
                }
            }
            false
        }
        E::Alt(c) | E::Fb(c) => c.iter().any(|x| may_end_lit(x, cx, depth + 1)),
        E::Opt(c) | E::Many(c) | E::Descr(c, _) => may_end_lit(c, cx, depth + 1),
    }
}
fn may_start_lit(e: &E, cx: &Ctx, depth: usize) -> bool {
    if depth > 12 {
        return true;
    }
    match e {
        E::Lit(..) => true,
        E::Cmd(_) => false,
        E::Ref(n) => cx.resolves_plain(n).map(|b| may_start_lit(b, cx, depth + 1)).unwrap_or(false),
        E::Seq(c) | E::Word(c) => {
            for x in c {
                if may_start_lit(x, cx, depth + 1) {
                    return true;
                }
                if !nullable(x, cx, depth + 1) {
                    return false;
                }
            }
            false
        }
        E::Alt(c) | E::Fb(c) => c.iter().any(|x| may_start_lit(x, cx, depth + 1)),
        E::Opt(c) | E::Many(c) | E::Descr(c, _) => may_start_lit(c, cx, depth + 1),
    }
}
fn nullable(e: &E, cx: &Ctx, depth: usize) -> bool {
    if depth > 12 {
        return true;
    }
    match e {
        E::Lit(..) | E::Cmd(_) => false,
        E::Ref(n) => cx.resolves_plain(n).map(|b| nullable(b, cx, depth + 1)).unwrap_or(false),
        E::Seq(c) | E::Word(c) => c.iter().all(|x| nullable(x, cx, depth + 1)),
        E::Alt(c) | E::Fb(c) => c.iter().any(|x| nullable(x, cx, depth + 1)),
        E::Opt(_) => true,
        E::Many(c) | E::Descr(c, _) => nullable(c, cx, depth + 1),
    }
}

fn subword_spaces(e: &E, in_word: bool, cx: &Ctx, seen: &mut HashSet<(String, bool)>, out: &mut Classes) {
    match e {
        E::Lit(..) | E::Cmd(_) => {}
        E::Ref(n) => {
            if let Some(b) = cx.resolves_plain(n) {
                if seen.insert((n.clone(), in_word)) {
                    subword_spaces(b, in_word, cx, seen, out);
                }
            }
        }
        E::Seq(c) => {
            if in_word {
                for w in c.windows(2) {
                    if tail_lit(&w[0]) && head_lit(&w[1]) {
                        out.set("SubwordSpaces", Tri::Yes);
                    } else if may_end_lit(&w[0], cx, 0) && may_start_lit(&w[1], cx, 0) {
                        // literal adjacency through [] | ... or a definition: complgen accepts and
                        // glues the literals; the statement names only directly adjacent literals
                        out.set("SubwordSpaces", Tri::Unclear);
                    }
                }
            }
            for x in c {
                subword_spaces(x, in_word, cx, seen, out);
            }
        }
        E::Word(c) => {
            for w in c.windows(2) {
                // juxtaposed literals `a(b)`: rejected by complgen although nothing is
                // space-separated -> neither verdict demanded
                if tail_lit_r(&w[0], cx, 0) && head_lit_r(&w[1], cx, 0) {
                    out.set("SubwordSpaces", Tri::Unclear);
                }
            }
            for x in c {
                subword_spaces(x, true, cx, seen, out);
            }
        }
        E::Alt(c) | E::Fb(c) => {
            for x in c {
                subword_spaces(x, in_word, cx, seen, out);
            }
        }
        E::Opt(c) | E::Many(c) | E::Descr(c, _) => subword_spaces(c, in_word, cx, seen, out),
    }
}

/// is there a placeholder (Star) inside the word after which something can follow?
fn unbounded(a: &RefAuto) -> bool {
    for s in 0..a.n {
        for (l, t) in &a.edges[s] {
            if matches!(a.labels[*l], RLabel::Star) {
                let cl = a.closure(&BTreeSet::from([*t]));
                if !a.out_edges(&cl).is_empty() {
                    return true;
                }
            }
        }
    }
    false
}

/// same literal expected at one point (= one state of the automaton determinised by reading)
/// with two different descriptions
fn conflicting(a: &RefAuto, keys: &mut Keys) -> Tri {
    let mut result = Tri::No;
    let reads: Vec<u32> = a.labels.iter().map(|l| keys.ref_read_key(l)).collect();
    let mut seen: HashSet<BTreeSet<usize>> = HashSet::new();
    let mut q = VecDeque::new();
    let s0 = a.start_set();
    seen.insert(s0.clone());
    q.push_back(s0);
    while let Some(set) = q.pop_front() {
        let mut by_read: BTreeMap<u32, (BTreeSet<usize>, Vec<usize>)> = BTreeMap::new();
        for (l, t) in a.out_edges(&set) {
            let e = by_read.entry(reads[l]).or_default();
            e.0.insert(t);
            e.1.push(l);
        }
        for (_, (tgts, labels)) in by_read {
            // compare descriptions of literal labels with the same text (same reading)
            let mut descrs: Vec<&Allowed> = vec![];
            for l in &labels {
                if let RLabel::Lit { descr, .. } = &a.labels[*l] {
                    descrs.push(descr);
                }
            }
            for i in 0..descrs.len() {
                for j in (i + 1)..descrs.len() {
                    match (descrs[i], descrs[j]) {
                        (Allowed::Exactly(Some(x)), Allowed::Exactly(Some(y))) => {
                            if x != y {
                                result = Tri::Yes;
                            }
                        }
                        (Allowed::Exactly(None), Allowed::Exactly(None)) => {}
                        (Allowed::Exactly(x), Allowed::Exactly(y)) => {
                            // described vs undescribed: complgen rejects; whether "no description"
                            // counts as a different description is left open
                            if x != y && result == Tri::No {
                                result = Tri::Unclear;
                            }
                        }
                        (x, y) => {
                            if x != y && result == Tri::No {
                                result = Tri::Unclear;
                            } else if let (Allowed::AnyOf(s), _) = (x, y) {
                                if s.len() > 1 && result == Tri::No {
                                    result = Tri::Unclear;
                                }
                            }
                        }
                    }
                }
            }
            let cl = a.closure(&tgts);
            if seen.insert(cl.clone()) {
                q.push_back(cl);
            }
        }
    }
    result
}

pub fn classify(g: &G, shell: Shell) -> Classes {
    let target = crate::pipe::shell_name(shell);
    let mut out = Classes::default();
    // ---- command names
    let calls: Vec<&String> = g
        .stmts
        .iter()
        .filter_map(|s| match s {
            Stmt::Call { name, .. } => Some(name),
            _ => None,
        })
        .collect();
    if calls.is_empty() {
        out.set("MissingCallVariants", Tri::Yes);
    }
    let names: BTreeSet<&String> = calls.iter().copied().collect();
    if names.len() > 1 {
        out.set("VaryingCommandNames", Tri::Yes);
    }
    if names.iter().any(|n| n.contains('/')) {
        out.set("InvalidCommandName", Tri::Yes);
    }
    // ---- definitions
    let mut plain: BTreeMap<String, &E> = BTreeMap::new();
    let mut spec_target: BTreeSet<String> = BTreeSet::new();
    let mut spec_any: BTreeSet<String> = BTreeSet::new();
    for s in &g.stmts {
        if let Stmt::Def { name, shell: sh, expr } = s {
            match sh {
                None => {
                    if plain.insert(name.clone(), expr).is_some() {
                        out.set("DuplicateNonterminalDefinition", Tri::Yes);
                    }
                }
                Some(sh) => {
                    if !SHELL_NAMES.contains(&sh.as_str()) {
                        out.set("UnknownShell", Tri::Yes);
                    }
                    if !matches!(expr, E::Cmd(_)) {
                        out.set("NonCommandSpecialization", Tri::Yes);
                    }
                    spec_any.insert(name.clone());
                    if sh == target {
                        if !spec_target.insert(name.clone()) {
                            out.set("DuplicateNonterminalDefinition", Tri::Yes);
                        }
                    }
                }
            }
        }
    }
    for (n, e) in &plain {
        if spec_any.contains(n) && !matches!(e, E::Cmd(_)) {
            // outside the statement's clean side, not in its list of rejected mistakes
            out.set("NonCommandSpecialization", Tri::Unclear);
        }
    }
    let cx = Ctx { target, plain, spec_target };
    let _ = cx.target;
    // ---- cycles among the plain definitions (edges: references that stand for a plain definition)
    let mut cyc = false;
    {
        let mut color: BTreeMap<&str, u8> = BTreeMap::new();
        fn dfs<'a>(n: &'a str, cx: &'a Ctx<'a>, color: &mut BTreeMap<&'a str, u8>) -> bool {
            color.insert(n, 1);
            let mut rs = vec![];
            refs_of(cx.plain[n], &mut rs);
            for r in rs {
                if cx.resolves_plain(&r).is_none() {
                    continue;
                }
                let key: &'a str = cx.plain.get_key_value(&r).unwrap().0.as_str();
                match color.get(key).copied().unwrap_or(0) {
                    1 => return true,
                    0 => {
                        if dfs(key, cx, color) {
                            return true;
                        }
                    }
                    _ => {}
                }
            }
            color.insert(n, 2);
            false
        }
        let keys: Vec<&str> = cx.plain.keys().map(|s| s.as_str()).collect();
        for k in keys {
            if color.get(k).copied().unwrap_or(0) == 0 && dfs(k, &cx, &mut color) {
                cyc = true;
                break;
            }
        }
    }
    if cyc {
        out.set("NonterminalDefinitionsCycle", Tri::Yes);
        // expansion-based classes cannot be evaluated; do not demand anything about them
        for k in ["SubwordSpaces", "UnboundedMatchable", "ConflictingDescriptions"] {
            out.set(k, Tri::Unclear);
        }
        return out;
    }
    // ---- classes that need the expansion
    let mut seen = HashSet::new();
    for s in &g.stmts {
        if let Stmt::Call { expr, .. } = s {
            subword_spaces(expr, false, &cx, &mut seen, &mut out);
        }
    }
    if let Ok(r) = refsem::reference(g, shell) {
        let mut keys = Keys::new(false);
        out.set("ConflictingDescriptions", conflicting(&r, &mut keys));
        for l in &r.labels {
            if let RLabel::Sub { auto, .. } = l {
                if unbounded(auto) {
                    out.set("UnboundedMatchable", Tri::Yes);
                }
                let mut keys = Keys::new(false);
                out.set("ConflictingDescriptions", conflicting(auto, &mut keys));
            }
        }
    }
    out
}

// ---------------------------------------------------------------------------------------------
// warnings (C15)
// ---------------------------------------------------------------------------------------------

#[derive(Clone, Debug, Default, PartialEq, Eq)]
pub struct Warnings {
    pub undefined: BTreeSet<String>,
    pub unused: BTreeSet<String>,
    pub unused_specs: BTreeSet<String>,
}

pub fn warnings(g: &G, shell: Shell) -> Warnings {
    let target = crate::pipe::shell_name(shell);
    let mut w = Warnings::default();
    let mut plain: BTreeMap<String, &E> = BTreeMap::new();
    let mut spec_target: BTreeSet<String> = BTreeSet::new();
    for s in &g.stmts {
        if let Stmt::Def { name, shell: sh, expr } = s {
            match sh {
                None => {
                    plain.entry(name.clone()).or_insert(expr);
                }
                Some(sh) if sh == target => {
                    spec_target.insert(name.clone());
                }
                _ => {}
            }
        }
    }
    // names any statement refers to (call variants and plain definition bodies)
    let mut referred: BTreeSet<String> = BTreeSet::new();
    for s in &g.stmts {
        match s {
            Stmt::Call { expr, .. } => {
                let mut v = vec![];
                refs_of(expr, &mut v);
                referred.extend(v);
            }
            Stmt::Def { shell: None, expr, .. } => {
                let mut v = vec![];
                refs_of(expr, &mut v);
                referred.extend(v);
            }
            _ => {}
        }
    }
    for n in plain.keys() {
        if !referred.contains(n) {
            w.unused.insert(n.clone());
        }
    }
    for n in &spec_target {
        if !referred.contains(n) {
            w.unused_specs.insert(n.clone());
        }
    }
    // undefined: reachable from the call variants through the definitions that are in effect
    let mut seen: BTreeSet<String> = BTreeSet::new();
    let mut work: Vec<String> = vec![];
    for s in &g.stmts {
        if let Stmt::Call { expr, .. } = s {
            refs_of(expr, &mut work);
        }
    }
    while let Some(n) = work.pop() {
        if !seen.insert(n.clone()) {
            continue;
        }
        if spec_target.contains(&n) {
            continue;
        }
        if let Some(b) = plain.get(&n) {
            refs_of(b, &mut work);
            continue;
        }
        if n == "_" || refsem::builtin_cmd(&n, shell).is_some() {
            continue;
        }
        w.undefined.insert(n);
    }
    w
}
