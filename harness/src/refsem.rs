//! Reference semantics of the grammar language (DESIGN.md section 2), independent of
//! complgen's pipeline: substitution + Thompson epsilon-NFA with labelled edges.
//!
//! R1 definition choice, R2 expansion, R3 tri-state descriptions, R4 fallback levels,
//! R5 label alphabet.

use crate::ast::{Stmt, E, G};
use crate::pipe::Shell;
use std::collections::{BTreeMap, BTreeSet};
use std::rc::Rc;

#[derive(Clone, PartialEq, Eq, Hash, Debug, PartialOrd, Ord)]
pub enum Allowed {
    Exactly(Option<String>),
    /// documentation leaves it open: any of these is acceptable
    AnyOf(BTreeSet<Option<String>>),
}

impl Allowed {
    pub fn admits(&self, d: &Option<String>) -> bool {
        match self {
            Allowed::Exactly(x) => x == d,
            Allowed::AnyOf(s) => s.contains(d),
        }
    }
}

#[derive(Clone, Debug)]
pub enum RLabel {
    Lit { text: String, descr: Allowed, level: usize },
    Cmd { text: String, level: usize, compadd: bool },
    Sub { auto: Rc<RefAuto>, level: usize },
    Star,
}

impl RLabel {
    pub fn level(&self) -> Option<usize> {
        match self {
            RLabel::Lit { level, .. } | RLabel::Cmd { level, .. } | RLabel::Sub { level, .. } => Some(*level),
            RLabel::Star => None,
        }
    }
}

/// Thompson automaton: states 0..n, epsilon edges and labelled edges.
#[derive(Clone, Debug, Default)]
pub struct RefAuto {
    pub n: usize,
    pub start: usize,
    pub accept: usize,
    pub eps: Vec<Vec<usize>>,
    pub edges: Vec<Vec<(usize, usize)>>, // (label index, target)
    pub labels: Vec<RLabel>,
    /// some literal has an `AnyOf` description (a DON'T-CARE region exists)
    pub dontcare: bool,
}

#[derive(Clone, Debug, PartialEq, Eq)]
pub enum Reject {
    Cycle(Vec<String>),
    NoCallVariant,
}

#[derive(Clone, Debug, Default)]
pub struct Env {
    pub plain: BTreeMap<String, E>,
    /// name -> command text of the `<name@target>` definition
    pub spec: BTreeMap<String, String>,
}

pub fn builtin_cmd(name: &str, shell: Shell) -> Option<&'static str> {
    // the documented built-ins (README "Filename Completion"); texts are the per-shell
    // file/directory completers
    match (name, shell) {
        ("PATH", Shell::Bash) => Some(r#"compgen -A file -- "$1""#),
        ("PATH", Shell::Fish) => Some(r#"__fish_complete_path "$argv[1]""#),
        ("PATH", Shell::Zsh) => Some("_path_files"),
        ("PATH", Shell::Pwsh) => Some("Get-ChildItem | ForEach-Object { $_.Name }"),
        ("DIRECTORY", Shell::Bash) => Some(r#"compgen -A directory -- "$1""#),
        ("DIRECTORY", Shell::Fish) => Some(r#"__fish_complete_directories "$argv[1]""#),
        ("DIRECTORY", Shell::Zsh) => Some("_path_files -/"),
        ("DIRECTORY", Shell::Pwsh) => Some("Get-ChildItem -Directory | ForEach-Object { $_.Name }"),
        _ => None,
    }
}

pub fn env_of(g: &G, shell: Shell) -> Env {
    let target = crate::pipe::shell_name(shell);
    let mut env = Env::default();
    for s in &g.stmts {
        if let Stmt::Def { name, shell: sh, expr } = s {
            match sh {
                None => {
                    env.plain.entry(name.clone()).or_insert_with(|| expr.clone());
                }
                Some(sh) if sh == target => {
                    if let E::Cmd(c) = expr {
                        env.spec.entry(name.clone()).or_insert_with(|| c.clone());
                    }
                }
                Some(_) => {}
            }
        }
    }
    env
}

#[derive(Clone, Debug, Default)]
struct Mode {
    must: Option<String>,
    maybe: BTreeSet<String>,
}

impl Mode {
    fn weaken(&self) -> Mode {
        let mut maybe = self.maybe.clone();
        if let Some(d) = &self.must {
            maybe.insert(d.clone());
        }
        Mode { must: None, maybe }
    }
    fn drop_must(&self) -> Mode {
        Mode { must: None, maybe: self.maybe.clone() }
    }
}

fn definitely_spends(e: &E) -> bool {
    match e {
        E::Lit(_, None) => true,
        E::Seq(c) | E::Word(c) => c.first().map(definitely_spends).unwrap_or(false),
        _ => false,
    }
}

struct Builder<'a> {
    env: &'a Env,
    shell: Shell,
    a: RefAuto,
}

impl<'a> Builder<'a> {
    fn st(&mut self) -> usize {
        self.a.eps.push(vec![]);
        self.a.edges.push(vec![]);
        self.a.n += 1;
        self.a.n - 1
    }
    fn edge(&mut self, l: RLabel) -> (usize, usize) {
        let s = self.st();
        let t = self.st();
        self.a.labels.push(l);
        let li = self.a.labels.len() - 1;
        self.a.edges[s].push((li, t));
        (s, t)
    }
    fn concat(&mut self, parts: Vec<(usize, usize)>) -> (usize, usize) {
        let s = self.st();
        let mut cur = s;
        for (ps, pt) in parts {
            self.a.eps[cur].push(ps);
            cur = pt;
        }
        (s, cur)
    }
    fn alt(&mut self, parts: Vec<(usize, usize)>) -> (usize, usize) {
        let s = self.st();
        let t = self.st();
        for (ps, pt) in parts {
            self.a.eps[s].push(ps);
            self.a.eps[pt].push(t);
        }
        (s, t)
    }

    fn build(
        &mut self,
        e: &E,
        mode: &Mode,
        level: usize,
        in_word: bool,
        stack: &mut Vec<String>,
    ) -> Result<(usize, usize), Reject> {
        match e {
            E::Lit(t, own) => {
                let descr = match own {
                    Some(d) => Allowed::Exactly(Some(d.clone())),
                    None => match &mode.must {
                        Some(d) => Allowed::Exactly(Some(d.clone())),
                        None if mode.maybe.is_empty() => Allowed::Exactly(None),
                        None => {
                            self.a.dontcare = true;
                            let mut s: BTreeSet<Option<String>> = mode.maybe.iter().map(|d| Some(d.clone())).collect();
                            s.insert(None);
                            Allowed::AnyOf(s)
                        }
                    },
                };
                Ok(self.edge(RLabel::Lit { text: t.clone(), descr, level }))
            }
            E::Cmd(c) => Ok(self.edge(RLabel::Cmd { text: c.trim().to_string(), level, compadd: false })),
            E::Ref(name) => {
                if let Some(cmd) = self.env.spec.get(name) {
                    let compadd = matches!(self.shell, Shell::Zsh);
                    return Ok(self.edge(RLabel::Cmd { text: cmd.trim().to_string(), level, compadd }));
                }
                if let Some(body) = self.env.plain.get(name) {
                    if stack.contains(name) {
                        let mut c = stack.clone();
                        c.push(name.clone());
                        return Err(Reject::Cycle(c));
                    }
                    stack.push(name.clone());
                    let body = body.clone();
                    let r = self.build(&body, &mode.weaken(), level, in_word, stack);
                    stack.pop();
                    return r;
                }
                if let Some(cmd) = builtin_cmd(name, self.shell) {
                    let compadd = matches!(self.shell, Shell::Zsh);
                    return Ok(self.edge(RLabel::Cmd { text: cmd.to_string(), level, compadd }));
                }
                Ok(self.edge(RLabel::Star))
            }
            E::Seq(cs) => {
                if cs.is_empty() {
                    let s = self.st();
                    return Ok((s, s));
                }
                let mut parts = vec![];
                let later = if mode.must.is_some() {
                    if definitely_spends(&cs[0]) { mode.drop_must() } else { mode.weaken() }
                } else {
                    mode.clone()
                };
                for (i, c) in cs.iter().enumerate() {
                    let m = if i == 0 { mode } else { &later };
                    parts.push(self.build(c, m, level, in_word, stack)?);
                }
                Ok(self.concat(parts))
            }
            E::Word(cs) => {
                if in_word {
                    // nested juxtaposition inside a word is plain concatenation
                    return self.build(&E::Seq(cs.clone()), mode, level, true, stack);
                }
                // a word of the main automaton: its own reference automaton
                let mut sub = Builder { env: self.env, shell: self.shell, a: RefAuto::default() };
                let (s, t) = sub.build(&E::Seq(cs.clone()), mode, level, true, stack)?;
                sub.a.start = s;
                sub.a.accept = t;
                if sub.a.dontcare {
                    self.a.dontcare = true;
                }
                Ok(self.edge(RLabel::Sub { auto: Rc::new(sub.a), level }))
            }
            E::Alt(cs) => {
                let mut parts = vec![];
                for c in cs {
                    parts.push(self.build(c, mode, level, in_word, stack)?);
                }
                Ok(self.alt(parts))
            }
            E::Fb(cs) => {
                let m = mode.weaken();
                let mut parts = vec![];
                for (i, c) in cs.iter().enumerate() {
                    parts.push(self.build(c, &m, i, in_word, stack)?);
                }
                Ok(self.alt(parts))
            }
            E::Opt(c) => {
                let (s, t) = self.build(c, &mode.weaken(), level, in_word, stack)?;
                self.a.eps[s].push(t);
                Ok((s, t))
            }
            E::Many(c) => {
                let (s, t) = self.build(c, &mode.weaken(), level, in_word, stack)?;
                self.a.eps[t].push(s);
                // fresh end state so that the loop does not leak into a following concat start
                let s2 = self.st();
                let t2 = self.st();
                self.a.eps[s2].push(s);
                self.a.eps[t].push(t2);
                Ok((s2, t2))
            }
            E::Descr(c, d) => {
                let mut maybe = mode.maybe.clone();
                if let Some(o) = &mode.must {
                    maybe.insert(o.clone());
                }
                let m = Mode { must: Some(d.clone()), maybe };
                self.build(c, &m, level, in_word, stack)
            }
        }
    }
}

/// The reference automaton of a whole grammar for one target shell.
pub fn reference(g: &G, shell: Shell) -> Result<RefAuto, Reject> {
    let env = env_of(g, shell);
    let calls: Vec<&E> = g
        .stmts
        .iter()
        .filter_map(|s| match s {
            Stmt::Call { expr, .. } => Some(expr),
            _ => None,
        })
        .collect();
    if calls.is_empty() {
        return Err(Reject::NoCallVariant);
    }
    let mut b = Builder { env: &env, shell, a: RefAuto::default() };
    let mut stack = vec![];
    let mode = Mode::default();
    let (s, t) = if calls.len() == 1 {
        b.build(calls[0], &mode, 0, false, &mut stack)?
    } else {
        let mut parts = vec![];
        for c in calls {
            parts.push(b.build(c, &mode, 0, false, &mut stack)?);
        }
        b.alt(parts)
    };
    b.a.start = s;
    b.a.accept = t;
    Ok(b.a)
}

impl RefAuto {
    pub fn closure(&self, set: &BTreeSet<usize>) -> BTreeSet<usize> {
        let mut out = set.clone();
        let mut work: Vec<usize> = set.iter().copied().collect();
        while let Some(s) = work.pop() {
            for t in &self.eps[s] {
                if out.insert(*t) {
                    work.push(*t);
                }
            }
        }
        out
    }
    pub fn start_set(&self) -> BTreeSet<usize> {
        self.closure(&BTreeSet::from([self.start]))
    }
    pub fn accepting(&self, set: &BTreeSet<usize>) -> bool {
        set.contains(&self.accept)
    }
    /// labelled edges leaving a (closed) state set: (label index, target state)
    pub fn out_edges(&self, set: &BTreeSet<usize>) -> Vec<(usize, usize)> {
        let mut v = vec![];
        for s in set {
            for (l, t) in &self.edges[*s] {
                v.push((*l, *t));
            }
        }
        v
    }
}
