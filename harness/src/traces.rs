//! Model-state exploration of the reference automaton and conformance replay of every model
//! trace in a real bash (shared by C01, C09b, C12, C17).

use crate::ast::{print_grammar, G};
use crate::bashrun::{self, Answer, ProbeDef, Query};
use crate::binrun::Scratch;
use crate::json::J;
use crate::pipe::{self, Outcome, Shell};
use crate::refrun::{self, candidates, read_word, strip_wordbreaks, Probes, Read, Rules, StateSet, DEFAULT_WORDBREAKS};
use crate::refsem::{self, RLabel, RefAuto};
use std::collections::{BTreeMap, BTreeSet, VecDeque};

/// the standard probes used by the enumerated families
pub fn std_probes() -> (Vec<ProbeDef>, Probes) {
    let defs = vec![
        ProbeDef { id: "1".into(), lines: vec!["pa".into(), "pb\tdescr of pb".into()] },
        ProbeDef { id: "2".into(), lines: vec!["qa".into(), "qb".into(), "qab".into()] },
        ProbeDef { id: "3".into(), lines: vec![] },
    ];
    (defs.clone(), probes_of(&defs))
}

pub fn probes_of(defs: &[ProbeDef]) -> Probes {
    let mut p = Probes::default();
    for d in defs {
        p.outputs.insert(bashrun::probe_cmd(&d.id), d.lines.iter().map(|l| l.split('\t').next().unwrap_or("").to_string()).collect());
    }
    p
}

/// complete values of a within-word automaton (<= max_items items), and the proper prefixes at
/// item boundaries
fn sub_values(a: &RefAuto, probes: &Probes, max_items: usize, cap: usize) -> (BTreeSet<String>, BTreeSet<String>) {
    let mut complete = BTreeSet::new();
    let mut partial = BTreeSet::new();
    let mut stack: Vec<(StateSet, String, usize)> = vec![(a.start_set(), String::new(), 0)];
    let mut seen: BTreeSet<(StateSet, String)> = BTreeSet::new();
    while let Some((set, s, n)) = stack.pop() {
        if !seen.insert((set.clone(), s.clone())) {
            continue;
        }
        if complete.len() + partial.len() > cap {
            break;
        }
        if a.accepting(&set) && !s.is_empty() {
            complete.insert(s.clone());
        } else if !s.is_empty() {
            partial.insert(s.clone());
        }
        if n >= max_items {
            continue;
        }
        let mut by_text: BTreeMap<String, StateSet> = BTreeMap::new();
        for (l, t) in a.out_edges(&set) {
            match &a.labels[l] {
                RLabel::Lit { text, .. } => {
                    by_text.entry(text.clone()).or_default().insert(t);
                }
                RLabel::Cmd { text, .. } => {
                    for c in probes.candidates(text) {
                        by_text.entry(c).or_default().insert(t);
                    }
                }
                RLabel::Star => {
                    by_text.entry("zq".to_string()).or_default().insert(t);
                }
                _ => {}
            }
        }
        for (t, tg) in by_text {
            stack.push((a.closure(&tg), format!("{s}{t}"), n + 1));
        }
    }
    (complete, partial)
}

#[derive(Clone, Debug, Default)]
pub struct Vocabulary {
    pub words: BTreeSet<String>,
    pub cursors: BTreeSet<String>,
}

pub fn vocabulary(a: &RefAuto, probes: &Probes) -> Vocabulary {
    let mut items: BTreeSet<String> = BTreeSet::new();
    let mut partials: BTreeSet<String> = BTreeSet::new();
    for l in &a.labels {
        match l {
            RLabel::Lit { text, .. } => {
                items.insert(text.clone());
            }
            RLabel::Cmd { text, .. } => {
                items.extend(probes.candidates(text));
            }
            RLabel::Sub { auto, .. } => {
                let (c, p) = sub_values(auto, probes, 3, 24);
                items.extend(c);
                partials.extend(p);
            }
            RLabel::Star => {}
        }
    }
    let mut v = Vocabulary::default();
    v.words.extend(items.iter().cloned());
    v.words.extend(partials.iter().cloned());
    v.words.insert("zz".into());
    EXTRA_WORDS.with(|w| v.words.extend(w.borrow().iter().cloned()));
    if let Some(l) = items.iter().find(|i| i.chars().count() >= 2) {
        let cut: String = l.chars().take(l.chars().count() - 1).collect();
        v.words.insert(cut);
    }
    v.cursors.insert(String::new());
    for i in items.iter().chain(partials.iter()) {
        let cs: Vec<char> = i.chars().collect();
        for k in 1..=cs.len() {
            v.cursors.insert(cs[..k].iter().collect());
        }
        v.cursors.insert(format!("{i}z"));
    }
    v.cursors.insert("zz".into());
    v
}

/// C01's restriction: uniquely tokenisable inside words, no two readings at one point
pub fn outside_c01_region(a: &RefAuto, probes: &Probes) -> Option<String> {
    // within-word: item texts expected at one point must be prefix-free
    for l in &a.labels {
        if let RLabel::Sub { auto, .. } = l {
            let mut seen: BTreeSet<StateSet> = BTreeSet::new();
            let mut q = VecDeque::from([auto.start_set()]);
            while let Some(set) = q.pop_front() {
                if !seen.insert(set.clone()) {
                    continue;
                }
                let mut by_text: BTreeMap<String, (StateSet, BTreeSet<String>)> = BTreeMap::new();
                for (li, t) in auto.out_edges(&set) {
                    match &auto.labels[li] {
                        RLabel::Lit { text, descr, level } => {
                            let e = by_text.entry(text.clone()).or_default();
                            e.0.insert(t);
                            e.1.insert(format!("{descr:?}/{level}"));
                        }
                        RLabel::Cmd { text, .. } => {
                            for c in probes.candidates(text) {
                                let e = by_text.entry(c).or_default();
                                e.0.insert(t);
                                e.1.insert(format!("cmd {text}"));
                            }
                        }
                        _ => {}
                    }
                }
                let texts: Vec<&String> = by_text.keys().collect();
                for x in &texts {
                    for y in &texts {
                        if x != y && y.starts_with(x.as_str()) {
                            return Some(format!("within-word items {x:?} and {y:?} overlap (C12 region)"));
                        }
                    }
                }
                for (t, (tg, labels)) in &by_text {
                    if labels.len() > 1 {
                        return Some(format!("within-word item {t:?} expected with two labels (C09 region)"));
                    }
                    q.push_back(auto.closure(tg));
                }
            }
        }
    }
    // main automaton: at one point no literal text with two labels, no two within-word
    // expressions with a common word
    let mut seen: BTreeSet<StateSet> = BTreeSet::new();
    let mut q = VecDeque::from([a.start_set()]);
    while let Some(set) = q.pop_front() {
        if !seen.insert(set.clone()) {
            continue;
        }
        let mut lits: BTreeMap<String, (StateSet, BTreeSet<String>)> = BTreeMap::new();
        let mut subs: Vec<(usize, usize)> = vec![];
        let mut others: Vec<StateSet> = vec![];
        for (li, t) in a.out_edges(&set) {
            match &a.labels[li] {
                RLabel::Lit { text, descr, level } => {
                    let e = lits.entry(text.clone()).or_default();
                    e.0.insert(t);
                    e.1.insert(format!("{descr:?}/{level}"));
                }
                RLabel::Sub { .. } => subs.push((li, t)),
                _ => others.push(StateSet::from([t])),
            }
        }
        for (t, (_, labels)) in &lits {
            if labels.len() > 1 {
                return Some(format!("literal {t:?} expected with two labels at one point (C09 region)"));
            }
        }
        for i in 0..subs.len() {
            for j in 0..subs.len() {
                if i == j {
                    continue;
                }
                if let (RLabel::Sub { auto: x, .. }, RLabel::Sub { auto: y, .. }) = (&a.labels[subs[i].0], &a.labels[subs[j].0]) {
                    if subs[i].1 == subs[j].1 && std::rc::Rc::ptr_eq(x, y) {
                        continue;
                    }
                    let (vals, _) = sub_values(x, probes, 3, 24);
                    for v in vals {
                        if refrun::sub_accepts(y, &v, probes, &Rules::default()) != refrun::Tri::No {
                            return Some(format!("two within-word expressions accept the common word {v:?} (C09 region)"));
                        }
                    }
                }
            }
        }
        for (_, (tg, _)) in lits {
            q.push_back(a.closure(&tg));
        }
        for (_, t) in subs {
            q.push_back(a.closure(&StateSet::from([t])));
        }
        for o in others {
            q.push_back(a.closure(&o));
        }
    }
    None
}

#[derive(Clone, Debug)]
pub struct Trace {
    pub path: Vec<String>,
    pub cursor: String,
    pub default_wb: bool,
    /// model state after `path` (None = not matched)
    pub state: Option<StateSet>,
}

#[derive(Clone, Debug, Default)]
pub struct Exploration {
    pub states: u64,
    pub transitions: u64,
    pub traces: Vec<Trace>,
    pub ambiguous_skipped: u64,
}

/// BFS over model states by appending one word; traces = (path, cursor word, wordbreaks mode)
/// cursor words worth trying at one model state in the lean (quick) mode: the empty word, for
/// every candidate offered there its first character and its full text, one level deeper inside
/// words, a foreign word and one vocabulary item that is not expected
fn lean_cursors(a: &RefAuto, set: &StateSet, probes: &Probes, vocab: &Vocabulary) -> BTreeSet<String> {
    let mut out: BTreeSet<String> = BTreeSet::new();
    out.insert(String::new());
    out.insert("zz".into());
    let first = candidates(a, set, "", probes);
    let mut level1: BTreeSet<String> = first.must.iter().cloned().collect();
    let mut inside: BTreeSet<String> = BTreeSet::new();
    // items of every fallback level, not only the winning one
    for (l, _) in a.out_edges(set) {
        match &a.labels[l] {
            RLabel::Lit { text, .. } => {
                level1.insert(text.clone());
            }
            RLabel::Cmd { text, .. } => level1.extend(probes.candidates(text)),
            RLabel::Sub { auto, .. } => {
                let mut one = RefAuto::default();
                let _ = &mut one;
                let (c, p) = sub_values(auto, probes, 1, 12);
                // second items of every `||` level inside the word, typed up to their first
                // character and completely (the winning level alone hides later branches)
                let (c2, p2) = sub_values(auto, probes, 2, 24);
                for v in c2.iter().chain(p2.iter()) {
                    for pre in c.iter().chain(p.iter()) {
                        if v.len() > pre.len() && v.starts_with(pre.as_str()) {
                            let n = pre.chars().count() + 1;
                            inside.insert(v.chars().take(n).collect());
                            inside.insert(v.clone());
                        }
                    }
                }
                level1.extend(c);
                level1.extend(p);
            }
            RLabel::Star => {}
        }
    }
    out.extend(inside);
    let level1: Vec<String> = level1.into_iter().collect();
    for c in &level1 {
        let cs: Vec<char> = c.chars().collect();
        out.insert(cs[..1].iter().collect());
        out.insert(c.clone());
        out.insert(format!("{c}z"));
        // one level deeper (inside a word the first candidate is only the first item)
        let deeper = candidates(a, set, c, probes);
        for d in deeper.must.iter().take(3) {
            if d != c {
                let ds: Vec<char> = d.chars().collect();
                out.insert(ds[..(cs.len() + 1).min(ds.len())].iter().collect());
                out.insert(d.clone());
            }
        }
    }
    if let Some(w) = vocab.words.iter().find(|w| !level1.iter().any(|c| c.starts_with(w.as_str())) && w.as_str() != "zz") {
        out.insert(w.clone());
    }
    out
}

thread_local! {
    /// additional complete words to try at every state (C07: near misses of literals)
    pub static EXTRA_WORDS: std::cell::RefCell<Vec<String>> = const { std::cell::RefCell::new(Vec::new()) };
    /// run the empty-COMP_WORDBREAKS variant only for every n-th eligible cursor word (1 = all)
    pub static EMPTY_WB_STRIDE: std::cell::Cell<usize> = const { std::cell::Cell::new(1) };
}

pub fn explore(a: &RefAuto, probes: &Probes, vocab: &Vocabulary, depth: usize, max_traces: usize) -> Exploration {
    explore_mode(a, probes, vocab, depth, max_traces, false)
}

pub fn explore_mode(a: &RefAuto, probes: &Probes, vocab: &Vocabulary, depth: usize, max_traces: usize, lean: bool) -> Exploration {
    let mut ex = Exploration::default();
    let mut seen: BTreeMap<StateSet, Vec<String>> = BTreeMap::new();
    let mut q: VecDeque<(StateSet, Vec<String>)> = VecDeque::new();
    let s0 = a.start_set();
    seen.insert(s0.clone(), vec![]);
    q.push_back((s0, vec![]));
    let rules = Rules::default();
    let push_cursors = |ex: &mut Exploration, path: &Vec<String>, state: Option<StateSet>, all: bool| {
        let lean_set = match (&state, lean) {
            (Some(st), true) => Some(lean_cursors(a, st, probes, vocab)),
            _ => None,
        };
        for c in lean_set.as_ref().unwrap_or(&vocab.cursors) {
            if !all && !(c.is_empty() || c == "zz") {
                continue;
            }
            if ex.traces.len() >= max_traces {
                return;
            }
            ex.traces.push(Trace { path: path.clone(), cursor: c.clone(), default_wb: true, state: state.clone() });
            // the empty COMP_WORDBREAKS run only differs when the prefix holds a break character
            if c.chars().any(|ch| DEFAULT_WORDBREAKS.contains(ch)) || (c.is_empty() && path.len() % 2 == 0) {
                let stride = EMPTY_WB_STRIDE.with(|s| s.get()).max(1);
                if ex.traces.len() % stride == 0 {
                    ex.traces.push(Trace { path: path.clone(), cursor: c.clone(), default_wb: false, state: state.clone() });
                }
            }
        }
    };
    let mut dead_done: BTreeSet<(StateSet, String)> = BTreeSet::new();
    while let Some((set, path)) = q.pop_front() {
        ex.states += 1;
        push_cursors(&mut ex, &path, Some(set.clone()), true);
        if path.len() >= depth {
            continue;
        }
        for w in &vocab.words {
            ex.transitions += 1;
            match read_word(a, &set, w, probes, &rules) {
                Read::To(next) => {
                    let mut p = path.clone();
                    p.push(w.clone());
                    if !seen.contains_key(&next) {
                        seen.insert(next.clone(), p.clone());
                        q.push_back((next, p));
                    } else if ex.traces.len() < max_traces + 200 {
                        // every transition is replayed, not only the first path found into a
                        // state: after this word the empty cursor word must offer what the target
                        // state prescribes
                        ex.traces.push(Trace { path: p, cursor: String::new(), default_wb: true, state: Some(next) });
                    }
                }
                Read::Dead => {
                    // the not-matched state: explored one step (nothing may be offered after it)
                    if dead_done.insert((set.clone(), w.clone())) {
                        let mut p = path.clone();
                        p.push(w.clone());
                        if lean {
                            ex.traces.push(Trace { path: p.clone(), cursor: String::new(), default_wb: true, state: None });
                            continue;
                        }
                        push_cursors(&mut ex, &p, None, false);
                        let mut p2 = p.clone();
                        if let Some(first) = vocab.words.iter().next() {
                            p2.push(first.clone());
                            ex.traces.push(Trace { path: p2, cursor: String::new(), default_wb: true, state: None });
                        }
                    }
                }
                Read::Ambiguous => ex.ambiguous_skipped += 1,
            }
        }
    }
    ex
}

#[derive(Clone, Debug)]
pub struct Mismatch {
    pub key: String,
    pub summary: String,
    pub detail: J,
}

fn normalise_replies(a: &Answer) -> BTreeSet<String> {
    a.replies.iter().map(|r| r.strip_suffix(' ').unwrap_or(r).to_string()).collect()
}

type Outcome3 = (bool, BTreeSet<String>, BTreeSet<String>);

/// expected outcome(s) of a trace under `rules`: alternatives of (matched?, must, may) after
/// word-break stripping; None = no verdict (a word readable by two kinds of items)
fn expected(a: &RefAuto, probes: &Probes, t: &Trace, rules: &Rules) -> Option<Vec<Outcome3>> {
    let wb = if t.default_wb { DEFAULT_WORDBREAKS } else { "" };
    let complete_at = |set: &StateSet| -> Outcome3 {
        let e = candidates(a, set, &t.cursor, probes);
        let strip = |s: &BTreeSet<String>| s.iter().map(|c| strip_wordbreaks(c, &t.cursor, wb)).collect::<BTreeSet<String>>();
        (true, strip(&e.must), strip(&e.may))
    };
    let mut set = a.start_set();
    let n = t.path.len();
    let mut alts: Vec<Outcome3> = vec![];
    for (i, w) in t.path.iter().enumerate() {
        if rules.last_word_command_mismatch_completes && i + 1 == n {
            // F7: if the last complete word is not read as a literal or within-word expression
            // and some expected command with candidates does not list it, the walk may stop here
            // and completion goes on from the state before that word
            let edges = a.out_edges(&set);
            let lit_or_sub = edges.iter().any(|(l, _)| match &a.labels[*l] {
                RLabel::Lit { text, .. } => text == w,
                RLabel::Sub { auto, .. } => refrun::sub_accepts(auto, w, probes, rules) == refrun::Tri::Yes,
                _ => false,
            });
            let failing_cmd = edges.iter().any(|(l, _)| matches!(&a.labels[*l], RLabel::Cmd { text, .. } if { let c = probes.candidates(text); !c.is_empty() && !c.iter().any(|x| x == w) }));
            if !lit_or_sub && failing_cmd {
                alts.push(complete_at(&set));
            }
        }
        match read_word(a, &set, w, probes, rules) {
            Read::To(next) => set = next,
            Read::Ambiguous => return None,
            Read::Dead => {
                alts.push((false, BTreeSet::new(), BTreeSet::new()));
                return Some(alts);
            }
        }
    }
    alts.push(complete_at(&set));
    Some(alts)
}

fn agrees_any(alts: &[Outcome3], ans: &Answer) -> Result<(), String> {
    let mut first_err = None;
    for (i, e) in alts.iter().enumerate().rev() {
        match agrees(e, ans) {
            Ok(()) => return Ok(()),
            Err(w) => {
                if i == alts.len() - 1 {
                    first_err = Some(w)
                }
            }
        }
    }
    Err(first_err.unwrap_or_default())
}

fn agrees(exp: &(bool, BTreeSet<String>, BTreeSet<String>), ans: &Answer) -> Result<(), String> {
    let got = normalise_replies(ans);
    if !exp.0 {
        if !got.is_empty() {
            return Err(format!("the preceding words are not matched by the grammar, yet {got:?} is offered"));
        }
        return Ok(());
    }
    if ans.rc != 0 {
        return Err(format!("completion function returned {} on a matched command line", ans.rc));
    }
    for m in &exp.1 {
        if !got.contains(m) {
            return Err(format!("candidate {m:?} is missing (offered: {got:?}, prescribed: {:?})", exp.1));
        }
    }
    for g in &got {
        if !exp.1.contains(g) && !exp.2.contains(g) {
            return Err(format!("candidate {g:?} is offered but not prescribed (prescribed: {:?})", exp.1));
        }
    }
    Ok(())
}

pub struct GrammarRun {
    pub text: String,
    pub exploration: Exploration,
    pub validated: u64,
    pub mismatches: Vec<Mismatch>,
    pub answers: Vec<Answer>,
    pub outcomes: BTreeSet<u64>,
    pub log_checked: u64,
}

pub enum RunError {
    Rejected(String),
    Excluded(String),
    Machinery(String),
    Violation(Mismatch),
}

/// Compile `g` for bash (library pipeline; bound to the binary by C06/C14), explore the model,
/// replay every trace in bash, classify disagreements with the deviation rules.
pub fn run_grammar(g: &G, defs: &[ProbeDef], probes: &Probes, depth: usize, max_traces: usize, restrict_c01: bool, lean: bool, scratch: &Scratch) -> Result<GrammarRun, RunError> {
    run_grammar_opts(g, defs, probes, depth, max_traces, restrict_c01, lean, false, scratch)
}

#[allow(clippy::too_many_arguments)]
pub fn run_grammar_opts(g: &G, defs: &[ProbeDef], probes: &Probes, depth: usize, max_traces: usize, restrict_c01: bool, lean: bool, check_log: bool, scratch: &Scratch) -> Result<GrammarRun, RunError> {
    let text = print_grammar(g);
    let c = match pipe::compile(&text, Shell::Bash) {
        Outcome::Ok(c) => c,
        Outcome::Err(e) => return Err(RunError::Rejected(pipe::error_kind(&e).to_string())),
        Outcome::Panic(p) => {
            return Err(RunError::Violation(Mismatch { key: "crash".into(), summary: format!("pipeline panicked: {p}"), detail: J::obj(vec![("grammar", J::s(&text))]) }))
        }
    };
    let script = match pipe::emit(&c, Shell::Bash) {
        Ok(s) => s,
        Err(e) => return Err(RunError::Violation(Mismatch { key: "crash".into(), summary: format!("bash emitter failed: {e}"), detail: J::obj(vec![("grammar", J::s(&text))]) })),
    };
    let a = match refsem::reference(g, Shell::Bash) {
        Ok(a) => a,
        Err(e) => return Err(RunError::Excluded(format!("reference rejects: {e:?}"))),
    };
    if restrict_c01 {
        if let Some(why) = outside_c01_region(&a, probes) {
            return Err(RunError::Excluded(why));
        }
    }
    let vocab = vocabulary(&a, probes);
    let ex = explore_mode(&a, probes, &vocab, depth, max_traces, lean);
    let queries: Vec<Query> = ex
        .traces
        .iter()
        .map(|t| {
            let mut words = t.path.clone();
            words.push(t.cursor.clone());
            Query { words, default_wordbreaks: t.default_wb }
        })
        .collect();
    let batch = bashrun::run_batch(&script, &c.command, defs, &queries, scratch);
    if batch.hung {
        let k = batch.answers.len();
        let line = queries.get(k).map(|q| format!("{} {}<TAB>", c.command, q.words.join(" "))).unwrap_or_default();
        return Err(RunError::Violation(Mismatch {
            key: "completion-never-returns".into(),
            summary: format!("`{line}` for grammar `{}`: the completion function did not return (bash killed at the horizon)", text.trim_end().replace('\n', " ")),
            detail: J::obj(vec![("grammar", J::s(&text)), ("line", J::s(line)), ("why", J::s(batch.failed.clone().unwrap_or_default()))]),
        }));
    }
    if let Some(f) = batch.failed {
        return Err(RunError::Machinery(format!("{f}; stderr: {}", batch.stderr.chars().take(400).collect::<String>())));
    }
    let mut run = GrammarRun { text: text.clone(), exploration: ex, validated: 0, mismatches: vec![], answers: vec![], outcomes: BTreeSet::new(), log_checked: 0 };
    let strict = Rules::default();
    let f6 = Rules { within_word_prefix_accepted: true, ..Default::default() };
    let f7 = Rules { last_word_command_mismatch_completes: true, ..Default::default() };
    let f67 = Rules { within_word_prefix_accepted: true, last_word_command_mismatch_completes: true };
    for (t, ans) in run.exploration.traces.iter().zip(batch.answers.iter()) {
        let Some(exp_alts) = expected(&a, probes, t, &strict) else { continue };
        let exp = exp_alts.last().unwrap().clone();
        run.validated += 1;
        run.outcomes.insert(crate::report::fnv(&format!("{:?}{:?}{:?}", ans.rc, ans.replies, ans.log)));
        if check_log && agrees_any(&exp_alts, ans).is_ok() {
            if let Some(m) = log_check(&a, probes, t, ans, &text, &c.command) {
                run.mismatches.push(m);
            } else {
                run.log_checked += 1;
            }
        }
        if let Err(why) = agrees_any(&exp_alts, ans) {
            // does exactly one listed deviation rule explain it?
            let mut key = None;
            for (name, r) in [("within-word-prefix-accepted", &f6), ("last-word-command-mismatch-completes", &f7), ("within-word-prefix-accepted+last-word-command-mismatch-completes", &f67)] {
                if let Some(e2) = expected(&a, probes, t, r) {
                    if agrees_any(&e2, ans).is_ok() {
                        key = Some(name.to_string());
                        break;
                    }
                }
            }
            let key = key.unwrap_or_else(|| if !exp.0 { "offers-after-mismatch".into() } else if why.contains("missing") { "candidate-missing".into() } else if why.contains("returned") { "wrong-return-code".into() } else { "candidate-not-prescribed".into() });
            let line = format!("{} {}<TAB>", c.command, t.path.iter().map(|w| format!("{w} ")).collect::<String>() + &t.cursor);
            run.mismatches.push(Mismatch {
                key,
                summary: format!("`{}` for grammar `{}` (COMP_WORDBREAKS {}): {why}", line, text.trim_end().replace('\n', " "), if t.default_wb { "default" } else { "empty" }),
                detail: J::obj(vec![
                    ("grammar", J::s(&text)),
                    ("command_line", J::s(&line)),
                    ("words_before_cursor", J::arr_s(t.path.iter().cloned())),
                    ("cursor_word", J::s(&t.cursor)),
                    ("comp_wordbreaks", J::s(if t.default_wb { "default" } else { "empty" })),
                    ("return_code", J::i(ans.rc as i64)),
                    ("compreply", J::arr_s(ans.replies.iter().cloned())),
                    ("prescribed", J::arr_s(exp.1.iter().cloned())),
                    ("tolerated", J::arr_s(exp.2.iter().cloned())),
                    ("why", J::s(&why)),
                    ("reproduce", J::s("complgen --bash s.bash FILE; bash -c 'source s.bash; _get_comp_words_by_ref(){ words=(\"${COMP_WORDS[@]}\"); cword=$COMP_CWORD; }; COMP_WORDS=(cmd WORDS... CURSOR); COMP_CWORD=N; _cmd; printf \"%s\\n\" \"${COMPREPLY[@]}\"'")),
                ]),
            });
        }
    }
    if !batch.canary_ok {
        run.mismatches.push(Mismatch { key: "canary-touched".into(), summary: format!("sourcing/running the script for `{}` changed the canary file or variable", text.trim_end()), detail: J::obj(vec![("grammar", J::s(&text))]) });
    }
    run.answers = batch.answers;
    Ok(run)
}


/// C17: the probe log of one trace against the model (completion phase exact, matching phase
/// by inclusion, nothing else ever runs)
fn log_check(a: &RefAuto, probes: &Probes, t: &Trace, ans: &Answer, text: &str, cmdname: &str) -> Option<Mismatch> {
    let strict = log_check_rules(a, probes, t, ans, text, cmdname, &Rules::default())?;
    if strict.key == "last-word-command-mismatch-completes" {
        return Some(strict);
    }
    // F6 (listed known finding): a word that stops inside a within-word expression is accepted;
    // if the log is exactly what the model with that one deviation prescribes, it is that finding
    let f6 = Rules { within_word_prefix_accepted: true, ..Default::default() };
    match log_check_rules(a, probes, t, ans, text, cmdname, &f6) {
        None => Some(Mismatch { key: "within-word-prefix-accepted".into(), summary: format!("{} [explained by: a word stopping inside a within-word expression is accepted]", strict.summary), detail: strict.detail }),
        Some(m) if m.key == "last-word-command-mismatch-completes" => Some(Mismatch { key: "within-word-prefix-accepted+last-word-command-mismatch-completes".into(), summary: m.summary, detail: m.detail }),
        Some(_) => Some(strict),
    }
}

fn log_check_rules(a: &RefAuto, probes: &Probes, t: &Trace, ans: &Answer, text: &str, cmdname: &str, rules: &Rules) -> Option<Mismatch> {
    // id -> command text
    let mut calls: Vec<(String, String, String)> = vec![];
    for line in &ans.log {
        let f: Vec<&str> = line.splitn(4, '|').collect();
        if f.len() < 4 {
            continue;
        }
        calls.push((bashrun::probe_cmd(f[0]), f[2].to_string(), f[3].to_string()));
    }
    let line = format!("{} {}<TAB>", cmdname, t.path.iter().map(|w| format!("{w} ")).collect::<String>() + &t.cursor);
    let mk = |key: &str, why: String| {
        Some(Mismatch {
            key: key.to_string(),
            summary: format!("`{line}` for grammar `{}`: {why}", text.trim_end().replace('\n', " ")),
            detail: J::obj(vec![("grammar", J::s(text)), ("command_line", J::s(&line)), ("probe_log", J::arr_s(ans.log.iter().cloned())), ("why", J::s(&why))]),
        })
    };
    let check_at = |final_set: &StateSet, states: &Vec<(StateSet, String)>| -> Result<(), (String, String)> {
        let Some((expected, allowed)) = refrun::completion_probe_calls(a, final_set, &t.cursor, probes) else { return Ok(()) };
        // completion phase: every expected call must be in the log (once)
        let mut rest = calls.clone();
        for e in &expected {
            match rest.iter().position(|c| c == e) {
                Some(i) => {
                    rest.remove(i);
                }
                None => {
                    return Err((
                        "probe-call-missing".into(),
                        format!("completing {:?}: command `{}` should run with $1={:?} $2={:?}; log: {:?}", t.cursor, e.0, e.1, e.2, ans.log),
                    ))
                }
            }
        }
        // what remains belongs to the matching of earlier words, or to the walk over the word
        // under the cursor (commands expected at a point inside that word)
        for c in &rest {
            let ok = states.iter().any(|(s, w)| refrun::matching_probe_calls_allowed(a, s, w, probes, c)) || allowed.contains(c) || expected.contains(c);
            if !ok {
                return Err((
                    "probe-ran-unexpectedly".into(),
                    format!("command `{}` ran with arguments ($1={:?}, $2={:?}) although neither the completion point nor any earlier word expects it that way; log: {:?}", c.0, c.1, c.2, ans.log),
                ));
            }
        }
        Ok(())
    };
    // walk the path under the given rules
    let mut set = a.start_set();
    let mut states: Vec<(StateSet, String)> = vec![];
    for w in &t.path {
        states.push((set.clone(), w.clone()));
        match read_word(a, &set, w, probes, rules) {
            Read::To(n) => set = n,
            _ => {
                // F7 (listed known finding): a last word that no candidate of a command matches does
                // not stop the script, it completes from the state before that word
                if states.len() == t.path.len() {
                    let (before, last) = states.last().unwrap();
                    let edges = a.out_edges(before);
                    let failing_cmd = edges.iter().any(|(l, _)| matches!(&a.labels[*l], RLabel::Cmd { text, .. } if { let c = probes.candidates(text); !c.is_empty() && !c.iter().any(|x| x == last) }));
                    let strict_ok = calls.iter().all(|c| states.iter().any(|(s, w)| refrun::matching_probe_calls_allowed(a, s, w, probes, c)));
                    if failing_cmd && !strict_ok && check_at(before, &states).is_ok() {
                        return mk("last-word-command-mismatch-completes", "probe log shows completion running from the state before the last, unmatched word".to_string());
                    }
                }
                // not matched: whatever ran must still have been expected where it ran
                for c in &calls {
                    if !states.iter().any(|(s, w)| refrun::matching_probe_calls_allowed(a, s, w, probes, c)) {
                        return mk("probe-ran-unexpectedly", format!("command `{}` ran with arguments ({:?}, {:?}) although no state on the path expects it that way", c.0, c.1, c.2));
                    }
                }
                return None;
            }
        }
    }
    match check_at(&set, &states) {
        Ok(()) => None,
        Err((key, why)) => {
            // F7: the walk may have stopped before the last complete word (listed known finding)
            if let Some((before, last)) = states.last() {
                let edges = a.out_edges(before);
                let lit_or_sub = edges.iter().any(|(l, _)| match &a.labels[*l] {
                    RLabel::Lit { text, .. } => text == last,
                    RLabel::Sub { auto, .. } => refrun::sub_accepts(auto, last, probes, rules) == refrun::Tri::Yes,
                    _ => false,
                });
                let failing_cmd = edges.iter().any(|(l, _)| matches!(&a.labels[*l], RLabel::Cmd { text, .. } if { let c = probes.candidates(text); !c.is_empty() && !c.iter().any(|x| x == last) }));
                if !lit_or_sub && failing_cmd && check_at(before, &states).is_ok() {
                    return mk("last-word-command-mismatch-completes", format!("probe log shows completion running from the state before the last word: {why}"));
                }
            }
            mk(&key, why)
        }
    }
}
