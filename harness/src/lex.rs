//! Rough lexer of .usage text for token-level fault enumeration (C06, C13, C14).  It only has
//! to split a text into pieces whose concatenation is the text; a wrong split merely yields a
//! different (still enumerated) mutant.

#[derive(Clone, Debug, PartialEq, Eq)]
pub enum TokKind {
    Blank,
    Comment,
    Command,
    Descr,
    Nonterm,
    Punct,
    Word,
}

#[derive(Clone, Debug)]
pub struct Piece {
    pub kind: TokKind,
    pub text: String,
}

pub fn lex(s: &str) -> Vec<Piece> {
    let b: Vec<char> = s.chars().collect();
    let mut i = 0;
    let mut out = vec![];
    let starts = |i: usize, pat: &str| -> bool {
        let p: Vec<char> = pat.chars().collect();
        i + p.len() <= b.len() && b[i..i + p.len()] == p[..]
    };
    while i < b.len() {
        let c = b[i];
        let start = i;
        let kind;
        if c.is_whitespace() {
            while i < b.len() && b[i].is_whitespace() {
                i += 1;
            }
            kind = TokKind::Blank;
        } else if c == '#' && (start == 0 || b[start - 1].is_whitespace() || matches!(b[start - 1], ';' | '(' | '[' | '|')) {
            while i < b.len() && b[i] != '\n' {
                i += 1;
            }
            kind = TokKind::Comment;
        } else if starts(i, "{{{") {
            i += 3;
            while i < b.len() && !starts(i, "}}}") {
                i += 1;
            }
            i = (i + 3).min(b.len());
            kind = TokKind::Command;
        } else if c == '"' {
            i += 1;
            while i < b.len() && b[i] != '"' {
                if b[i] == '\\' {
                    i += 1;
                }
                i += 1;
            }
            i = (i + 1).min(b.len());
            kind = TokKind::Descr;
        } else if c == '<' {
            while i < b.len() && b[i] != '>' {
                i += 1;
            }
            i = (i + 1).min(b.len());
            kind = TokKind::Nonterm;
        } else if starts(i, "::=") {
            i += 3;
            kind = TokKind::Punct;
        } else if starts(i, "...") {
            i += 3;
            kind = TokKind::Punct;
        } else if starts(i, "||") {
            i += 2;
            kind = TokKind::Punct;
        } else if matches!(c, '(' | ')' | '[' | ']' | '|' | ';' | '>' | '{' | '}') {
            i += 1;
            kind = TokKind::Punct;
        } else {
            while i < b.len() {
                let d = b[i];
                if d.is_whitespace() || matches!(d, '(' | ')' | '[' | ']' | '|' | ';' | '<' | '>' | '"' | '{' | '}') || starts(i, "...") {
                    break;
                }
                if d == '\\' {
                    i += 1;
                }
                i += 1;
            }
            i = i.min(b.len());
            if i == start {
                i += 1;
            }
            kind = TokKind::Word;
        }
        out.push(Piece { kind, text: b[start..i].iter().collect() });
    }
    out
}

pub fn join(p: &[Piece]) -> String {
    p.iter().map(|x| x.text.as_str()).collect()
}
