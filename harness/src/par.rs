//! Single producer / N consumers over batches; each consumer owns a state that is merged at
//! the end.  Deterministic content (the set of items), nondeterministic assignment to workers;
//! every state merge used by the checks is commutative (sums, sets, first-by-key minima).

use std::sync::mpsc::sync_channel;
use std::sync::{Arc, Mutex};

pub fn nthreads() -> usize {
    std::env::var("CGMC_THREADS").ok().and_then(|s| s.parse().ok()).unwrap_or(8)
}

pub fn run<I: Send, S: Send>(
    n: usize,
    produce: impl FnOnce(&mut dyn FnMut(I)) + Send,
    mk: impl Fn() -> S + Sync,
    work: impl Fn(&mut S, I) + Sync,
) -> Vec<S> {
    const BATCH: usize = 128;
    let (tx, rx) = sync_channel::<Vec<I>>(n * 4);
    let rx = Arc::new(Mutex::new(rx));
    std::thread::scope(|scope| {
        let mut handles = vec![];
        for _ in 0..n {
            let rx = rx.clone();
            let mk = &mk;
            let work = &work;
            handles.push(
                std::thread::Builder::new()
                    .stack_size(256 << 20)
                    .spawn_scoped(scope, move || {
                        let mut st = mk();
                        loop {
                            let batch = {
                                let g = rx.lock().unwrap();
                                g.recv()
                            };
                            match batch {
                                Ok(b) => {
                                    for i in b {
                                        work(&mut st, i);
                                    }
                                }
                                Err(_) => break,
                            }
                        }
                        st
                    })
                    .unwrap(),
            );
        }
        let mut buf: Vec<I> = Vec::with_capacity(BATCH);
        produce(&mut |i| {
            buf.push(i);
            if buf.len() >= BATCH {
                let b = std::mem::replace(&mut buf, Vec::with_capacity(BATCH));
                tx.send(b).unwrap();
            }
        });
        if !buf.is_empty() {
            tx.send(buf).unwrap();
        }
        drop(tx);
        handles.into_iter().map(|h| h.join().expect("worker panicked")).collect()
    })
}
