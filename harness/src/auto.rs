//! Generic finite automata over interned symbols: epsilon-free NFA, subset construction,
//! Moore minimisation (partition refinement by signatures), canonical form, and the
//! explicit-state product that decides language equivalence of two NFAs.

use std::collections::{BTreeMap, BTreeSet, HashMap, VecDeque};

pub type Sym = u32;

#[derive(Default, Clone, Debug)]
pub struct Interner {
    pub names: Vec<String>,
    map: HashMap<String, Sym>,
}

impl Interner {
    pub fn get(&mut self, s: &str) -> Sym {
        if let Some(i) = self.map.get(s) {
            return *i;
        }
        let i = self.names.len() as Sym;
        self.names.push(s.to_string());
        self.map.insert(s.to_string(), i);
        i
    }
    pub fn name(&self, s: Sym) -> &str {
        &self.names[s as usize]
    }
}

/// epsilon-free NFA with several start states
#[derive(Clone, Debug, Default)]
pub struct Nfa {
    pub starts: BTreeSet<usize>,
    pub accept: Vec<bool>,
    pub trans: Vec<Vec<(Sym, usize)>>,
}

impl Nfa {
    pub fn n(&self) -> usize {
        self.accept.len()
    }
    pub fn step(&self, set: &BTreeSet<usize>) -> BTreeMap<Sym, BTreeSet<usize>> {
        let mut m: BTreeMap<Sym, BTreeSet<usize>> = BTreeMap::new();
        for s in set {
            for (a, t) in &self.trans[*s] {
                m.entry(*a).or_default().insert(*t);
            }
        }
        m
    }
    pub fn accepting(&self, set: &BTreeSet<usize>) -> bool {
        set.iter().any(|s| self.accept[*s])
    }
}

#[derive(Clone, Debug, Default)]
pub struct Dfa {
    pub start: usize,
    pub accept: Vec<bool>,
    pub trans: Vec<BTreeMap<Sym, usize>>,
}

pub fn determinize(n: &Nfa) -> Dfa {
    let mut ids: HashMap<BTreeSet<usize>, usize> = HashMap::new();
    let mut d = Dfa::default();
    let mut q = VecDeque::new();
    ids.insert(n.starts.clone(), 0);
    d.accept.push(n.accepting(&n.starts));
    d.trans.push(BTreeMap::new());
    q.push_back(n.starts.clone());
    while let Some(set) = q.pop_front() {
        let from = ids[&set];
        for (a, tgt) in n.step(&set) {
            let id = match ids.get(&tgt) {
                Some(i) => *i,
                None => {
                    let i = d.accept.len();
                    ids.insert(tgt.clone(), i);
                    d.accept.push(n.accepting(&tgt));
                    d.trans.push(BTreeMap::new());
                    q.push_back(tgt);
                    i
                }
            };
            d.trans[from].insert(a, id);
        }
    }
    d
}

impl Dfa {
    pub fn n(&self) -> usize {
        self.accept.len()
    }

    /// states from which an accepting state is reachable
    pub fn coreachable(&self) -> Vec<bool> {
        let n = self.n();
        let mut rev: Vec<Vec<usize>> = vec![vec![]; n];
        for (s, m) in self.trans.iter().enumerate() {
            for t in m.values() {
                rev[*t].push(s);
            }
        }
        let mut live = vec![false; n];
        let mut w: Vec<usize> = (0..n).filter(|s| self.accept[*s]).collect();
        for s in &w {
            live[*s] = true;
        }
        while let Some(s) = w.pop() {
            for p in &rev[s] {
                if !live[*p] {
                    live[*p] = true;
                    w.push(*p);
                }
            }
        }
        live
    }

    pub fn reachable(&self) -> Vec<bool> {
        let mut seen = vec![false; self.n()];
        let mut w = vec![self.start];
        seen[self.start] = true;
        while let Some(s) = w.pop() {
            for t in self.trans[s].values() {
                if !seen[*t] {
                    seen[*t] = true;
                    w.push(*t);
                }
            }
        }
        seen
    }

    /// Trim (reachable and co-reachable; the start state is always kept).
    pub fn trim(&self) -> Dfa {
        let r = self.reachable();
        let c = self.coreachable();
        let keep: Vec<bool> = (0..self.n()).map(|s| s == self.start || (r[s] && c[s])).collect();
        let mut new_id = vec![usize::MAX; self.n()];
        let mut k = 0;
        for s in 0..self.n() {
            if keep[s] {
                new_id[s] = k;
                k += 1;
            }
        }
        let mut d = Dfa { start: new_id[self.start], accept: vec![false; k], trans: vec![BTreeMap::new(); k] };
        for s in 0..self.n() {
            if !keep[s] {
                continue;
            }
            d.accept[new_id[s]] = self.accept[s];
            for (a, t) in &self.trans[s] {
                if keep[*t] && c[*t] {
                    d.trans[new_id[s]].insert(*a, new_id[*t]);
                }
            }
        }
        d
    }

    /// Moore partition refinement on a trim partial DFA (missing transition = dead).
    /// Returns the block index of every state.
    pub fn moore_blocks(&self) -> Vec<usize> {
        let n = self.n();
        let mut block: Vec<usize> = self.accept.iter().map(|a| if *a { 1 } else { 0 }).collect();
        loop {
            let mut sigs: HashMap<(usize, Vec<(Sym, usize)>), usize> = HashMap::new();
            let mut next = vec![0usize; n];
            for s in 0..n {
                let sig: Vec<(Sym, usize)> = self.trans[s].iter().map(|(a, t)| (*a, block[*t])).collect();
                let k = sigs.len();
                let id = *sigs.entry((block[s], sig)).or_insert(k);
                next[s] = id;
            }
            let nb_old = block.iter().collect::<BTreeSet<_>>().len();
            let nb_new = sigs.len();
            block = next;
            if nb_new == nb_old {
                return block;
            }
        }
    }

    pub fn minimize(&self) -> Dfa {
        let t = self.trim();
        let block = t.moore_blocks();
        let nb = block.iter().max().map(|m| m + 1).unwrap_or(0);
        let mut d = Dfa { start: block[t.start], accept: vec![false; nb], trans: vec![BTreeMap::new(); nb] };
        for s in 0..t.n() {
            d.accept[block[s]] = t.accept[s];
            for (a, to) in &t.trans[s] {
                d.trans[block[s]].insert(*a, block[*to]);
            }
        }
        d
    }

    /// Canonical text of a minimal trim DFA: BFS numbering with symbols ordered by *name*.
    pub fn canonical(&self, names: &Interner) -> String {
        let m = self.minimize();
        let mut order: Vec<usize> = vec![];
        let mut id = vec![usize::MAX; m.n()];
        let mut q = VecDeque::new();
        id[m.start] = 0;
        order.push(m.start);
        q.push_back(m.start);
        while let Some(s) = q.pop_front() {
            let mut outs: Vec<(&str, usize)> = m.trans[s].iter().map(|(a, t)| (names.name(*a), *t)).collect();
            outs.sort();
            for (_, t) in outs {
                if id[t] == usize::MAX {
                    id[t] = order.len();
                    order.push(t);
                    q.push_back(t);
                }
            }
        }
        let mut out = String::new();
        for s in order {
            out.push_str(&format!("{}{}:", id[s], if m.accept[s] { "!" } else { "" }));
            let mut outs: Vec<(&str, usize)> = m.trans[s].iter().map(|(a, t)| (names.name(*a), id[*t])).collect();
            outs.sort();
            for (a, t) in outs {
                out.push_str(&format!("[{}>{}]", a, t));
            }
            out.push(';');
        }
        out
    }

    pub fn to_nfa(&self) -> Nfa {
        Nfa {
            starts: BTreeSet::from([self.start]),
            accept: self.accept.clone(),
            trans: self.trans.iter().map(|m| m.iter().map(|(a, t)| (*a, *t)).collect()).collect(),
        }
    }
}

#[derive(Clone, Debug)]
pub struct Cex {
    pub path: Vec<Sym>,
    pub why: String,
}

#[derive(Clone, Copy, Debug, Default)]
pub struct ProductStats {
    pub states: u64,
    pub transitions: u64,
}

/// Explicit-state product of two NFAs (subset construction on both sides, on the fly).
/// Invariant checked in every reachable pair: acceptance agrees and the sets of enabled
/// symbols agree.  Returns the shortest (BFS) distinguishing symbol sequence on failure.
pub fn equivalent(a: &Nfa, b: &Nfa) -> Result<ProductStats, (Cex, ProductStats)> {
    type Pair = (BTreeSet<usize>, BTreeSet<usize>);
    let mut seen: HashMap<Pair, usize> = HashMap::new();
    let mut parent: Vec<(usize, Sym)> = vec![];
    let mut q: VecDeque<(Pair, usize)> = VecDeque::new();
    let start: Pair = (a.starts.clone(), b.starts.clone());
    seen.insert(start.clone(), 0);
    parent.push((usize::MAX, 0));
    q.push_back((start, 0));
    let mut st = ProductStats::default();
    let path_to = |parent: &Vec<(usize, Sym)>, mut i: usize| {
        let mut p = vec![];
        while parent[i].0 != usize::MAX {
            p.push(parent[i].1);
            i = parent[i].0;
        }
        p.reverse();
        p
    };
    while let Some(((sa, sb), idx)) = q.pop_front() {
        st.states += 1;
        let acc_a = a.accepting(&sa);
        let acc_b = b.accepting(&sb);
        if acc_a != acc_b {
            return Err((
                Cex { path: path_to(&parent, idx), why: format!("acceptance differs: left={acc_a} right={acc_b}") },
                st,
            ));
        }
        let ma = a.step(&sa);
        let mb = b.step(&sb);
        for k in ma.keys() {
            if !mb.contains_key(k) {
                let mut p = path_to(&parent, idx);
                p.push(*k);
                return Err((Cex { path: p, why: "symbol enabled on the left only".into() }, st));
            }
        }
        for k in mb.keys() {
            if !ma.contains_key(k) {
                let mut p = path_to(&parent, idx);
                p.push(*k);
                return Err((Cex { path: p, why: "symbol enabled on the right only".into() }, st));
            }
        }
        for (k, ta) in ma {
            st.transitions += 1;
            let tb = mb[&k].clone();
            let pair = (ta, tb);
            if !seen.contains_key(&pair) {
                let i = parent.len();
                seen.insert(pair.clone(), i);
                parent.push((idx, k));
                q.push_back((pair, i));
            }
        }
    }
    Ok(st)
}

/// NFA whose edges carry a *reading* symbol (what word it consumes) and a *label* symbol
/// (the full expected item: text, description, level).
#[derive(Clone, Debug, Default)]
pub struct LNfa {
    pub starts: BTreeSet<usize>,
    pub accept: Vec<bool>,
    pub trans: Vec<Vec<(Sym, Sym, usize)>>,
}

impl LNfa {
    pub fn accepting(&self, set: &BTreeSet<usize>) -> bool {
        set.iter().any(|s| self.accept[*s])
    }
    /// reading -> (targets, labels enabled under that reading)
    pub fn step(&self, set: &BTreeSet<usize>) -> BTreeMap<Sym, (BTreeSet<usize>, BTreeSet<Sym>)> {
        let mut m: BTreeMap<Sym, (BTreeSet<usize>, BTreeSet<Sym>)> = BTreeMap::new();
        for s in set {
            for (r, l, t) in &self.trans[*s] {
                let e = m.entry(*r).or_default();
                e.0.insert(*t);
                e.1.insert(*l);
            }
        }
        m
    }
    pub fn plain(&self) -> Nfa {
        Nfa {
            starts: self.starts.clone(),
            accept: self.accept.clone(),
            trans: self.trans.iter().map(|v| v.iter().map(|(r, _, t)| (*r, *t)).collect()).collect(),
        }
    }
}

/// Subset construction by *reading*; every DFA edge symbol is "reading{sorted labels}" so that the
/// canonical form of the result identifies the language of words together with the labels
/// expected at every point.
pub fn determinize_l(l: &LNfa, names: &mut Interner) -> Dfa {
    let mut ids: HashMap<BTreeSet<usize>, usize> = HashMap::new();
    let mut d = Dfa::default();
    let mut q = VecDeque::new();
    ids.insert(l.starts.clone(), 0);
    d.accept.push(l.accepting(&l.starts));
    d.trans.push(BTreeMap::new());
    q.push_back(l.starts.clone());
    while let Some(set) = q.pop_front() {
        let from = ids[&set];
        for (r, (tgt, labels)) in l.step(&set) {
            let mut ls: Vec<String> = labels.iter().map(|x| names.name(*x).to_string()).collect();
            ls.sort();
            let sym_name = format!("{}{{{}}}", names.name(r), ls.join("\u{1e}"));
            let sym = names.get(&sym_name);
            let id = match ids.get(&tgt) {
                Some(i) => *i,
                None => {
                    let i = d.accept.len();
                    ids.insert(tgt.clone(), i);
                    d.accept.push(l.accepting(&tgt));
                    d.trans.push(BTreeMap::new());
                    q.push_back(tgt);
                    i
                }
            };
            d.trans[from].insert(sym, id);
        }
    }
    d
}

/// Product of two labelled NFAs, stepping by *reading* (subset construction on both sides).
/// Invariant per reachable pair: acceptance agrees, the same readings are enabled, and under
/// each reading the same set of labels is expected.
pub fn equivalent_l(a: &LNfa, b: &LNfa) -> Result<ProductStats, (Cex, ProductStats)> {
    type Pair = (BTreeSet<usize>, BTreeSet<usize>);
    let mut seen: HashMap<Pair, usize> = HashMap::new();
    let mut parent: Vec<(usize, Sym)> = vec![];
    let mut q: VecDeque<(Pair, usize)> = VecDeque::new();
    let start: Pair = (a.starts.clone(), b.starts.clone());
    seen.insert(start.clone(), 0);
    parent.push((usize::MAX, 0));
    q.push_back((start, 0));
    let mut st = ProductStats::default();
    let path_to = |parent: &Vec<(usize, Sym)>, mut i: usize| {
        let mut p = vec![];
        while parent[i].0 != usize::MAX {
            p.push(parent[i].1);
            i = parent[i].0;
        }
        p.reverse();
        p
    };
    while let Some(((sa, sb), idx)) = q.pop_front() {
        st.states += 1;
        let acc_a = a.accepting(&sa);
        let acc_b = b.accepting(&sb);
        if acc_a != acc_b {
            return Err((
                Cex { path: path_to(&parent, idx), why: format!("acceptance differs: left={acc_a} right={acc_b}") },
                st,
            ));
        }
        let ma = a.step(&sa);
        let mb = b.step(&sb);
        for (k, (_, la)) in &ma {
            match mb.get(k) {
                None => {
                    let mut p = path_to(&parent, idx);
                    p.push(*la.iter().next().unwrap());
                    return Err((Cex { path: p, why: "item expected on the left only".into() }, st));
                }
                Some((_, lb)) => {
                    if let Some(x) = la.difference(lb).next() {
                        let mut p = path_to(&parent, idx);
                        p.push(*x);
                        return Err((Cex { path: p, why: "item expected on the left only (same word is expected on the right with another label)".into() }, st));
                    }
                    if let Some(x) = lb.difference(la).next() {
                        let mut p = path_to(&parent, idx);
                        p.push(*x);
                        return Err((Cex { path: p, why: "item expected on the right only (same word is expected on the left with another label)".into() }, st));
                    }
                }
            }
        }
        for (k, (_, lb)) in &mb {
            if !ma.contains_key(k) {
                let mut p = path_to(&parent, idx);
                p.push(*lb.iter().next().unwrap());
                return Err((Cex { path: p, why: "item expected on the right only".into() }, st));
            }
        }
        for (k, (ta, la)) in ma {
            st.transitions += 1;
            let tb = mb[&k].0.clone();
            let pair = (ta, tb);
            if !seen.contains_key(&pair) {
                let i = parent.len();
                seen.insert(pair.clone(), i);
                // record one label of this reading for the counterexample path
                parent.push((idx, *la.iter().next().unwrap()));
                q.push_back((pair, i));
            }
        }
    }
    Ok(st)
}

#[cfg(test)]
mod tests {
    use super::*;
    #[test]
    fn minimize_and_equiv() {
        // (a|b)*abb classic is overkill; use: two equivalent accepting sinks
        let d = Dfa {
            start: 0,
            accept: vec![false, true, true],
            trans: vec![BTreeMap::from([(0, 1), (1, 2)]), BTreeMap::new(), BTreeMap::new()],
        };
        assert_eq!(d.minimize().n(), 2);
        let e = equivalent(&d.to_nfa(), &d.minimize().to_nfa());
        assert!(e.is_ok());
        let d2 = Dfa { start: 0, accept: vec![false, true], trans: vec![BTreeMap::from([(0, 1)]), BTreeMap::new()] };
        assert!(equivalent(&d.to_nfa(), &d2.to_nfa()).is_err());
    }
}
