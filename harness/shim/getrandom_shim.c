/* LD_PRELOAD shim: answers getrandom()/getentropy() deterministically from $CG_SEED and logs
 * every call to $CG_SEED_LOG, so that the harness owns the seed of std's RandomState (and of any
 * other randomly seeded container) instead of hoping to hit two different ones by chance. */
#define _GNU_SOURCE
#include <stdio.h>
#include <stdlib.h>
#include <string.h>
#include <sys/types.h>
#include <dlfcn.h>
#include <fcntl.h>
#include <unistd.h>

/* getenv(): answers from the real environment and appends the queried name to $CG_ENV_LOG, so
 * that the harness knows exactly which environment variables the process consults (CG_* names,
 * the shim's own, are not logged). */
static char *(*real_getenv)(const char *);
char *getenv(const char *name) {
    if (!real_getenv) real_getenv = (char *(*)(const char *))dlsym(RTLD_NEXT, "getenv");
    if (!real_getenv) return NULL;
    char *v = real_getenv(name);
    if (name && strncmp(name, "CG_", 3) != 0) {
        const char *log = real_getenv("CG_ENV_LOG");
        if (log) {
            int fd = open(log, O_WRONLY | O_APPEND | O_CREAT, 0644);
            if (fd >= 0) {
                ssize_t r = write(fd, name, strlen(name));
                r = write(fd, "\n", 1);
                (void)r;
                close(fd);
            }
        }
    }
    return v;
}

static void fill(unsigned char *buf, size_t len) {
    const char *s = getenv("CG_SEED");
    unsigned long long x = s ? strtoull(s, NULL, 10) : 0ULL;
    x = x * 6364136223846793005ULL + 1442695040888963407ULL;
    for (size_t i = 0; i < len; i++) {
        x ^= x >> 12; x ^= x << 25; x ^= x >> 27;
        buf[i] = (unsigned char)((x * 2685821657736338717ULL) >> 56);
    }
    const char *log = getenv("CG_SEED_LOG");
    if (log) {
        FILE *f = fopen(log, "a");
        if (f) { fprintf(f, "getrandom %zu\n", len); fclose(f); }
    }
}

ssize_t getrandom(void *buf, size_t buflen, unsigned int flags) {
    (void)flags;
    fill((unsigned char *)buf, buflen);
    return (ssize_t)buflen;
}

int getentropy(void *buf, size_t buflen) {
    fill((unsigned char *)buf, buflen);
    return 0;
}
