#!/bin/bash
# MANIFEST.setup_cmd: build the harness and the complgen binary offline from files on disk.
set -eu
cd "$(dirname "$0")"
ROOT="$(pwd)"
export CARGO_NET_OFFLINE=true
mkdir -p .build evidence replay
( cd harness && CARGO_TARGET_DIR="$ROOT/.build/harness" cargo build --release --offline )
( cd /repo && CARGO_TARGET_DIR="$ROOT/.build/repo" cargo build --release --offline --bin complgen )
echo setup ok
