#!/usr/bin/env python3
"""Generates MANIFEST.json from the table below (single source of truth)."""
import json

CHECKS = {
 "C01": dict(cat="model_checking", tech="explicit-state BFS over reference-model states (position sets) + conformance replay of every model trace in a real bash",
   text="For every grammar of the enumerated Level-B families the reference model (R6/R7) is explored breadth-first over word sequences up to the depth bound, deduplicated on the position set; every (state, cursor word, COMP_WORDBREAKS mode) trace is replayed in one real bash per grammar that sources the emitted script, and COMPREPLY / return code must equal what the grammar prescribes. Disagreements explained exactly by a listed deviation rule are reported as known findings.",
   note="trusted: reference semantics R6/R7; bash 5.2 as installed; _get_comp_words_by_ref and bind stubs; probe commands with fixed output; the emitted script comes from the library pipeline, bound to the binary by C06", ref="4/C01"),
 "C02": dict(cat="model_checking", tech="explicit-state product automaton (reference NFA x compiled DFA), exhaustive small-scope grammar enumeration; pairwise Eq/Hash-law and conflation detector on everything interned",
   text="For every enumerated grammar and each of the 4 shells, language equivalence (labels: text, description, fallback level, nested within-word automata) between the reference automaton and complgen's raw and minimized DFA is decided completely by exploring the finite product; grammars are all trees up to the node bound over a colliding vocabulary, so the verdict is exhaustive within that bound.",
   note="trusted: the harness's reference semantics (DESIGN.md section 2), the verif accessors (read-only); descriptions only compared where documented", ref="4/C02"),
 "C03": dict(cat="model_checking", tech="explicit-state product raw x minimized automaton (incl. the within-word automata the minimized automaton carries), reachability, Moore partition refinement; exhaustive loop-of-segments and segment-sequence families",
   text="For every automaton of the enumerated family (main and every within-word automaton rebuilt raw from its regex): the raw x minimized product is explored completely (language preserved), every minimized state is shown reachable and co-reachable, and an independent Moore refinement shows all states pairwise distinguishable and the size equal to the harness's own minimal automaton.",
   note="trusted: harness Moore refinement/trim (unit-tested); verif accessors", ref="4/C03"),
 "C06": dict(cat="fault_enumeration", tech="deviation-bounded fault enumeration (all single, for tiny seeds all double, token/byte deviations of every seed) in disposable worker processes + real binary runs",
   text="All single deviations of every seed (double for tiny seeds) and all raw strings up to length 2 run through the library pipeline, four emitters and both DOT writers inside worker processes whose death or stall pinpoints the input; the real binary is run on every seed x shell x destination kind, on a representative of every distinct library outcome class, on all deviations of the smallest seeds and on invalid UTF-8, judged by exit status, stderr, stdout, destination file and byte-equality with the library pipeline.",
   note="trusted: worker/progress protocol; 60 s stall/timeout horizons (robust to load); 'complete script' = ends with the shell's registration trailer", ref="4/C06"),
 "C07": dict(cat="exploration", tech="exhaustive bounded string enumeration x placements x four emitters with independent per-shell double-quote decoders; bash execution (bash -n, exact candidates, identical-word matching incl. glob near misses, canary)",
   text="Every string up to the length bounds over the full admitted character set / the hot set is placed as top-level literal, literal inside a word and description, emitted for four shells and decoded back with that shell's quoting rules (the decoder fails on anything the shell would expand or on an unterminated constant); in bash the strings are additionally executed: syntax check, exact candidates for every prefix, a word is matched only by the identical literal (near misses with glob characters), nothing is executed or expanded (canary).",
   note="trusted: decoders in harness/src/shells.rs; PowerShell typographic quotes are not judged (cannot be confirmed by execution here)", ref="4/C07"),
 "C08": dict(cat="fault_enumeration", tech="exhaustive placement of every mistake class in every context + verdict of every enumerated grammar against an independent mistake classifier",
   text="Every mistake class of the statement is planted in every context of a fixed context list (every nesting operator, 1-2 definition levels, word/non-word, statement orders, reachability situations for cycles) for all four shells, and additionally every tree of the bounded family is classified by the reference classifier R8; the library pipeline must accept exactly the clean ones and reject the others with a diagnostic of a planted class.",
   note="trusted: reference classifier harness/src/r8.rs; shapes on which statement and code can be read either way are counted as skipped, not judged", ref="4/C08"),
 "C09": dict(cat="model_checking", tech="exhaustive per-state item-pair check on every compiled automaton for all four targets; `||` vs `|` product automaton (levels erased); bash differential replay",
   text="Every state of every compiled automaton (main and within-word) of the collision-forcing and general families is visited and every pair of outgoing items examined: equal literal text, or within-word automata with equal word languages (decided by canonical minimal forms), must share the target. The `||` grammar and its `|` rewrite are compared by a complete product with levels erased. Bash-level differential traces are part of C01/C12 machinery.",
   note="trusted: canonical-form language equality of within-word automata; known finding subword-two-readings listed in known-findings.txt", ref="4/C09"),
 "C10": dict(cat="exploration", tech="controlled-nondeterminism sweep: LD_PRELOAD shim owning the hash seed and logging getenv x ASLR x environment (every variable the binary reads, one at a time) x cwd/stdin x destination history on the real binary; exhaustive in-process compile histories in fresh worker processes; deterministic pairwise Eq/Hash-law detector",
   text="The hidden inputs of a process (hash seed via getrandom, address-space layout, environment, cwd, stdin vs path, what the process compiled before) are owned by the harness and swept; script, --dfa and --regex bytes for every corpus and synthetic wide grammar and every shell must equal the reference run in every configuration, every file must hash identically in every in-process history, and in-process results must equal a fresh process's.",
   note="a sweep, not an enumeration, of the seed space (level: exploration); trusted: the shim intercepts the only seed source (evidence reports whether the binary asked for randomness)", ref="4/C10"),
 "C11": dict(cat="exploration", tech="exhaustive enumeration of definition subsets x names x reference sites x targets, product equivalence against the reference + script text observation",
   text="All 3x16 definition sets (plain none/command/expression x every subset of the four @shell definitions) for X, PATH, DIRECTORY at 6 reference sites and 4 targets are compiled; the automaton must equal the reference (which encodes the R1 choice order), the emitted script must contain exactly the chosen probe text, and removing other-shell definitions must not change a byte.",
   note="trusted: reference semantics R1; built-in completer texts copied into the harness", ref="4/C11"),
 "C12": dict(cat="model_checking", tech="exhaustive prefix-lattice value sets; model BFS + trace replay in real bash",
   text="Every value set of bounded size from a prefix lattice (with at least one prefix pair) is placed inside a word in several forms; the reference model (all tokenisations) is explored and every trace - each fully typed value followed by the next word, each prefix of each value, non-values - is replayed in real bash.",
   note="trusted: as C01; a value typed completely may or may not be offered again (tolerance)", ref="4/C12"),
 "C13": dict(cat="fault_enumeration", tech="exhaustive placement product (preceding lines x same-statement prefix x separator) per diagnostic kind, planted byte offset vs reported span; binary stderr replay",
   text="For 13 located diagnostic kinds the planted token's true line/column (known because the harness writes the text) is compared with the span the library returns for every placement of the slot product, and with the `path:L:C:` prefixes, print order and source snippet lines of the real binary's stderr on a covering subset (thorough: all).",
   note="trusted: byte-column convention; chic's `N | source` snippet layout parsed by the harness", ref="4/C13"),
 "C14": dict(cat="exploration", tech="metamorphic exhaustive single-deviation enumeration (every separator at every gap, spellings, parentheses, all definition permutations) with byte comparison; binary replay on the corpus",
   text="For every accepted grammar of the enumerated families the canonical print and every single re-layout (each separator at each token gap, ::=, final ;, redundant parentheses around each node outside a word, every permutation of the definitions) are compiled in-process and compared byte for byte (plus verdict and warning counts); corpus texts go through the real binary in their original layout, the canonical re-print and two re-layouts.",
   note="trusted: harness printer (validated by C05); target shell rotates over the variants, the canonical print is compiled for all four", ref="4/C14"),
 "C15": dict(cat="exploration", tech="exhaustive enumeration of reference structures (definition statuses x reference subsets) against a reachability oracle, at library level and on the real binary's stderr/stdout/exit status",
   text="All 7^3 status vectors of three definable names x all subsets of call-variant references x all acyclic body reference subsets x 4 targets: the three warning sets must equal the reachability oracle, every warning span must cover the offending name token, and deleting everything warned about must not change the script bytes or the verdict.",
   note="trusted: reachability oracle r8::warnings; Level L observes ValidGrammar's maps after main.rs's `_` exemption; Level B parses the binary's warning lines", ref="4/C15"),
 "C16": dict(cat="exploration", tech="strict DOT parser (graphviz lexer rules) + structural comparison of the dumps with the compiled automaton / regex positions; binary file binding",
   text="For every grammar of the enumerated families and a menu of hot strings in every textual role, the --dfa dump of each shell and the --regex dump must parse as DOT and show exactly the compiled automaton: one correctly named, labelled and shaped node per state, one labelled edge per transition, one cluster per within-word automaton numbered as in the scripts with entry/exit edges, every regex position as a labelled node; the files written by the real binary equal the library's bytes.",
   note="trusted: harness/src/dot.rs (no dot binary installed)", ref="4/C16"),
 "C17": dict(cat="model_checking", tech="model BFS + bash trace replay with logging probe commands (call multiset vs model)",
   text="Every external command of the enumerated grammars is a probe that logs its identity and arguments and prints fixed lines (incl. candidates with blanks and TAB descriptions). For every model trace replayed in bash, COMPREPLY must follow R7 and the probe log must contain exactly the completion-phase calls the model expects (with the documented $1/$2) plus only matching-phase calls expected at the state of an earlier word.",
   note="trusted: as C01; log order is not used", ref="4/C17"),
 "C04": dict(cat="model_checking", tech="per-shell read-back of the emitted tables (own quoting rules and index base, bash dynamic scoping modelled) + explicit-state product of the rebuilt automaton with the reference automaton",
   text="For every enumerated grammar and each of the four emitters the table statements of the script are read back, an automaton is rebuilt from them (literal list, descriptions, transition and per-level candidate tables, command function bodies, within-word tables incl. shared shape functions) and the complete product with the reference automaton of the grammar is explored; transition and candidate tables must list the same (state, item) pairs and the registration must name the command.",
   note="trusted: harness/src/shells.rs readers/decoders; fish/zsh/pwsh scripts are read, not executed; accepting states are not in the scripts and not compared", ref="4/C04"),
 "C05": dict(cat="exploration", tech="exhaustive bounded enumeration of trees, strings and layout deviations (print/parse round trip)",
   text="Every tree up to the node bound, every literal/description string up to the length bound and every single/double layout deviation is printed by the harness printer and parsed by Grammar::parse; the parsed tree must equal the printed one. Exhaustive within the stated bounds.",
   note="trusted: the harness printer's precedence ladder and escaper (validated by this very check: a printer bug shows up as a mismatch)", ref="4/C05"),
}

def main():
    checks = []
    for pid, c in sorted(CHECKS.items()):
        checks.append({
            "property_id": pid,
            "quick_cmd": f"./check {pid} quick",
            "thorough_cmd": f"./check {pid} thorough",
            "evidence_file": f"/verif/evidence/{pid}.json",
            "replay_cmd_template": f"./check {pid} quick --replay {{path}}",
            "engine": "cgmc",
            "level_claimed": {"category": c["cat"], "text": c["text"], "design_ref": c["ref"]},
            "level_note": c["note"],
            "technique": c["tech"],
        })
    all_ids = [f"C{n:02d}" for n in range(1, 18)]
    na = [{"property_id": p, "reason": "check not built yet (see DESIGN.md)"} for p in all_ids if p not in CHECKS]
    m = {
        "version": 1,
        "setup_cmd": "./setup.sh",
        "hooks": {
            "guard": "cargo feature `verif` (Cargo.toml [features] verif = [])",
            "enable": "the harness crate /verif/harness depends on complgen by path with features = [\"verif\"]; the complgen binary used by the binary-level checks is built with the feature off",
            "baseline_off_cmd": "cd /repo && cargo test --workspace --no-fail-fast --offline",
            "source_commits": ["a28a030"],
            "add_only": True,
        },
        "engines": [{"name": "cgmc", "path": "/verif/harness", "serves_properties": sorted(CHECKS), "kind_free_text": "Rust harness: exhaustive small-scope enumeration, reference semantics, explicit-state product exploration, real-bash trace replay"}],
        "checks": checks,
        "not_applicable": na,
        "notes": "All checks: ./check <ID> <quick|thorough>; exit 0 held / 1 VIOLATION / 2 machinery failure. Known findings: /verif/known-findings.txt.",
    }
    json.dump(m, open("MANIFEST.json", "w"), indent=1)
    print("wrote MANIFEST.json with", len(checks), "checks")

main()
